#!/usr/bin/env python3
"""Regenerates /verif/seeded/RESULTS.md from the meta.json files."""
import json, glob, os
rows = []
for m in sorted(glob.glob('/verif/seeded/*/meta.json')):
    d = json.load(open(m))
    rows.append(d)
out = ["# Seeded changes: which checks catch which change", "",
       "Every directory holds a change to terohuttunen/proto-vulcan written by a fresh sub-agent that saw only the",
       "property text and a scratch worktree (nothing from /verif): `patch.diff`, its demonstration `demo.rs`,",
       "its `notes.md`, and `meta.json`. Each change was confirmed by us in a scratch worktree",
       "(`tools/confirm_seed.sh`: demo passes unmodified, repository suite passes with the patch, demo fails with",
       "the patch) and then run against the quick checks with `tools/try_seed.sh` (apply to /repo, run, undo).",
       "", "| change | breaks | confirmed | detected by (quick) | signatures | history |", "|---|---|---|---|---|---|"]
hist = {}
hp = '/verif/seeded/HISTORY.json'
if os.path.exists(hp):
    hist = json.load(open(hp))
for d in rows:
    det = ", ".join(d.get("detected_by", [])) or "**missed**"
    sigs = "; ".join(sorted(set(d.get("violation_signatures", []))))[:160]
    out.append(f"| {d['name']} | {d['breaks_property']} | {'yes' if d.get('confirmed_by_us') else 'NO'} | {det} | {sigs} | {hist.get(d['name'], '')} |")
n = len(rows); c = sum(1 for d in rows if d.get('confirmed_by_us'))
k = sum(1 for d in rows if d.get('confirmed_by_us') and d['breaks_property'] in d.get('detected_by', []))
o = sum(1 for d in rows if d.get('confirmed_by_us') and d.get('detected_by') and d['breaks_property'] not in d.get('detected_by', []))
out += ["", f"{n} changes, {c} confirmed, {k} of the confirmed ones detected by the quick tier of the property they target, {o} more by the quick tier of another property only."]
open('/verif/seeded/RESULTS.md', 'w').write("\n".join(out) + "\n")
print(out[-1])
