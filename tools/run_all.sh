#!/bin/bash
# run_all.sh [tier] — every registered check once, summary lines only (uses VERIF_SEED if set)
cd /verif
TIER="${1:-quick}"
for id in $(python3 -c "import json; print(' '.join(c['property_id'] for c in json.load(open('MANIFEST.json'))['checks']))"); do
  OUT=$(./check $id $TIER 2>/tmp/run_all_err.log); RC=$?
  echo "$id rc=$RC $(echo "$OUT" | grep -E "^$id $TIER" | tail -n1 | cut -c1-220)"
  echo "$OUT" | grep -E "^VIOLATION|^KNOWN-FINDING" | cut -c1-160
  if [ $RC -ne 0 ]; then grep -E "^INFRA|^--- violation" -A4 /tmp/run_all_err.log | head -12; fi
done
