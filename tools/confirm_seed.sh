#!/bin/bash
# confirm_seed.sh <dir with patch.diff and demo.rs>
# Confirms in a scratch worktree of /repo: demo passes on the unmodified tree, the patch applies,
# the repository's own suite still passes with it, and the demo fails with it.
set -u
D="$(cd "$1" && pwd)"
WT=/tmp/confirm-$$
export CARGO_NET_OFFLINE=true
git -C /repo worktree add -q "$WT" HEAD || exit 2
cleanup() { git -C /repo worktree remove --force "$WT" >/dev/null 2>&1; rm -rf "$WT"; }
trap cleanup EXIT
cd "$WT"
mkdir -p examples && cp "$D/demo.rs" examples/demo.rs
echo "== demo on the unmodified tree"
timeout 600 cargo run --offline --example demo >"$D/.demo_clean.log" 2>&1; C=$?
tail -n 3 "$D/.demo_clean.log"
echo "   exit=$C"
git apply "$D/patch.diff" || { echo "RESULT patch-does-not-apply"; exit 3; }
echo "== repository test suite with the patch"
timeout 1800 cargo test --workspace --offline >"$D/.tests.log" 2>&1; T=$?
grep -E "^test result|FAILED|failed" "$D/.tests.log" | head -8
echo "   exit=$T"
echo "== demo with the patch"
timeout 600 cargo run --offline --example demo >"$D/.demo_patched.log" 2>&1; P=$?
tail -n 3 "$D/.demo_patched.log"
echo "   exit=$P"
if [ $C -eq 0 ] && [ $T -eq 0 ] && [ $P -ne 0 ]; then echo "RESULT confirmed"; exit 0; fi
if [ $C -eq 0 ] && [ $T -eq 0 ] && grep -q "FAIL" "$D/.demo_patched.log"; then echo "RESULT confirmed"; exit 0; fi
echo "RESULT not-confirmed clean=$C tests=$T patched=$P"; exit 1
