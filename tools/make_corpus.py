#!/usr/bin/env python3
"""make_corpus.py — (re)build the committed libFuzzer seed corpus corpus/<prop>-<family>/ from the
regression replays (inputs that once exposed a defect or a seeded change): one file per input,
named by content hash. Only families that get a libFuzzer campaign (framework.rs, fuzz_plan) are
taken. The corpus is an optimisation of the coverage-guided stage, never an oracle."""
import json, os, glob, hashlib, re
root = os.path.dirname(os.path.dirname(os.path.abspath(__file__)))
plan = {}
src = open(os.path.join(root, "harness/src/framework.rs")).read()
m = re.search(r"fn fuzz_plan.*?\n\}", src, re.S)
for pid, body in re.findall(r'"(C\d\d)" => vec!\[(.*?)\],', m.group(0)):
    plan[pid] = re.findall(r'\("([a-z0-9-]+)",', body)
n = 0
for f in glob.glob(os.path.join(root, "replays/regression/C*/*.json")):
    try:
        v = json.load(open(f))
    except Exception:
        continue
    pid, fam, hx = v.get("property"), v.get("family"), v.get("bytes")
    if not hx or fam not in plan.get(pid, []):
        continue
    data = bytes.fromhex(hx)
    d = os.path.join(root, "corpus", f"{pid}-{fam}")
    os.makedirs(d, exist_ok=True)
    p = os.path.join(d, hashlib.sha1(data).hexdigest()[:16])
    if not os.path.exists(p):
        open(p, "wb").write(data)
        n += 1
print(n, "corpus files added")
