#!/usr/bin/env python3
"""process_seed.py <seed dir> <property id> <name> [extra check ids...]
Confirms a sub-agent's seeded change in a scratch worktree (tools/confirm_seed.sh), runs the
property's quick check (and extra checks) against it with tools/try_seed.sh, and files it under
/verif/seeded/<name>/ with meta.json. Nothing is ever committed to /repo."""
import json, os, shutil, subprocess, sys, re
seed, pid, name = sys.argv[1], sys.argv[2], sys.argv[3]
extra = sys.argv[4:]
out = f"/verif/seeded/{name}"
os.makedirs(out, exist_ok=True)
for f in ("patch.diff", "demo.rs", "notes.md"):
    if os.path.exists(os.path.join(seed, f)) and os.path.abspath(os.path.join(seed, f)) != os.path.abspath(os.path.join(out, f)):
        shutil.copy(os.path.join(seed, f), os.path.join(out, f))
prev = json.load(open(os.path.join(out, "meta.json"))) if os.path.exists(os.path.join(out, "meta.json")) else {}
if prev.get("confirmed_by_us") and os.environ.get("RECONFIRM") is None:
    confirmed = True  # confirmed in an earlier run of this script; only the checks are re-run
else:
    c = subprocess.run(["/verif/tools/confirm_seed.sh", seed], capture_output=True, text=True)
    confirmed = "RESULT confirmed" in c.stdout
    print(c.stdout[-600:])
results = {}
if confirmed:
    t = subprocess.run(["/verif/tools/try_seed.sh", os.path.join(out, "patch.diff"), pid] + extra, capture_output=True, text=True)
    print(t.stdout[-1500:])
    for line in t.stdout.splitlines():
        m = re.match(r"^(C\d+) exit=(\d+)(.*)$", line)
        if m:
            results[m.group(1)] = {"exit": int(m.group(2)), "summary": m.group(3).strip()}
    sigs = re.findall(r"--- violation \[([^\]]+)\]", t.stdout)
else:
    sigs = []
notes = open(os.path.join(out, "notes.md")).read() if os.path.exists(os.path.join(out, "notes.md")) else ""
meta = {
    "breaks_property": pid,
    "name": name,
    "confirmed_by_us": confirmed,
    "confirmation": "tools/confirm_seed.sh: in a scratch worktree of /repo the demo passes on the unmodified tree, the patch applies, `cargo test --workspace --offline` passes with the patch, and the demo fails with the patch",
    "needs_to_manifest": (re.search(r"(?is)(what is needed|needs|trigger|when it shows)[^\n]*\n(.{0,600})", notes) or [None, None, ""])[2].strip()[:600] if notes else "",
    "checks_run": results,
    "detected_by": [k for k, v in results.items() if v["exit"] == 1],
    "violation_signatures": sigs,
    "ran": f"tools/try_seed.sh {os.path.join(out, 'patch.diff')} {pid} {' '.join(extra)}".strip(),
}
json.dump(meta, open(os.path.join(out, "meta.json"), "w"), indent=1)
print("META", json.dumps({k: meta[k] for k in ("name", "confirmed_by_us", "detected_by")}))
