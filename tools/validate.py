#!/usr/bin/env python3
import json, jsonschema, glob, sys
m=json.load(open('/verif/MANIFEST.json')); s=json.load(open('/root/.vp/MANIFEST.schema.json')); jsonschema.validate(m,s); print('manifest valid')
es=json.load(open('/root/.vp/EVIDENCE.schema.json'))
for f in sorted(glob.glob('/verif/evidence/*.json')):
    e=json.load(open(f)); jsonschema.validate(e,es); print(f,'valid', e['tier'], e['coverage'].get('evaluations'), e['coverage'].get('distinct_nontrivial'))
