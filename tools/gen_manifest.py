#!/usr/bin/env python3
"""Regenerates /verif/MANIFEST.json from the table below (keeps it valid and in one place)."""
import json, os, subprocess
HERE = os.path.dirname(os.path.dirname(os.path.abspath(__file__)))

def hook_commits():
    try:
        out = subprocess.check_output(["git", "-C", "/repo", "log", "--format=%H %s"], text=True)
        return [l.split()[0] for l in out.splitlines() if l.split(" ", 1)[1].startswith("verif hooks")]
    except Exception:
        return []

# ids whose check exists in the harness (keep in sync with harness/src/props/mod.rs)
IMPLEMENTED = ["C01", "C02", "C03", "C04", "C05", "C06", "C07", "C08", "C09", "C10", "C11", "C12", "C13", "C14", "C15", "C16", "C17", "C18", "C19", "C20", "C21", "C22", "C23", "C24"]

PBT = "property-based testing (proptest byte-driven generators, 16 seeded runners, shrinking to a replay file)"
REFI = "Trusts the harness's reference unifier/interpreter (model/*.rs, small and independent of the implementation) and the finite universe used for instance comparison."
# id -> (technique, level text, level note)
TABLE = {
 "C01": (PBT + " against a reference Robinson unifier; exhaustive pairs of terms up to size 4 in thorough",
         "Generated term pairs with prior bindings (mutation-derived so that unifiable, near-miss and occurs-check cases are frequent) are unified by State::unify and by queries; success, cycle-freedom, equality of both sides, most-generality (image isomorphic to the reference mgu; instances accepted, non-unifiers rejected) and symmetry are checked. A scale family does the same with one large dimension (spines of up to 400/1000 levels in six shapes, chains of up to 400 var-var equations in several posting orders). Exploration: agreement on everything generated, no proof.",
         REFI),
 "C02": (PBT + " against a reference interpreter with un-normalised disequalities, ground-instance membership, conjunct permutation, and an interpreter-free brute-force oracle for flat programs",
         "Pure tree programs (==, !=, conde, fresh, subsuming-pair motif) are run and compared as multisets of ground-instance sets with the reference, tuple by tuple with `q == g` extensions, under permutations of every conjunction, and (flat programs) with brute-force evaluation over U^n. A scale family keeps up to 400/1000 disequalities alive in the store, with subsumption events and deciding bindings aimed at one stored constraint, judged by the ground formula. Exploration.",
         REFI),
 "C03": (PBT + " with per-answer invariants (closedness, constraint relevance by own traversal) and a reference interpreter for sharing/distinctness of reified variables",
         "Every answer of generated list/compound programs is checked for `_`-only variables, constraints over answer variables only, LResult::constraints() completeness through lists and compounds, and equivalence with the reference answer; also for family S programs (library relations with their internal `_` and fresh variables) and for answers holding relation-built lists of hundreds of cells. Exploration.",
         REFI),
 "C04": (PBT + ": metamorphic relation - random permutations of every conjunction and clause list must preserve the answer multiset (tree and CLP(FD) profiles)",
         "Generated tree programs and flat CLP(FD) programs (with an inserted disjunction) are run as written and under up to 6 permutations of all goal lists and clause lists; answer multisets (instance-set equivalence / ground tuples) must agree; a scale family reorders programs with hundreds of disequalities, clauses, list cells or domain values. Exploration.",
         "Implementation compared with itself under reordering; no reference model needed."),
 "C05": (PBT + " against a reference depth-first interpreter, position by position, observed through a ticket fngoal (engine order) and at the iterator",
         "Generated search programs (nested cond/conjunction/fresh/closure, list relations on literal lists) wrapped in dfs{}: the order in which states leave the depth-first block and the order at the iterator must both equal the reference's Prolog order (half of the cases built with the constructor functions DFSDisj/DFSConj instead of the operators, both spellings of a dfs body). A scale family uses disjunctions of up to 400 clauses, chains of up to 200 binary choice points and recursive relations (also recursive-clause-first and non-tail-recursive ones) over literal lists of up to 400/1000 elements. Exploration.",
         REFI),
 "C06": (PBT + ": differential interleaving vs depth-first vs reference interpreter (finite trees); soundness of bounded prefixes of infinite streams against reference set semantics",
         "Finite search programs must have equal answer multisets under interleaving search, under dfs{} and in the reference; for programs with infinite producers ground instances of the first 25 answers must be solutions. The scale family of C05 is reused for the finite comparison. Every finite program is additionally built through the constructor functions of the public API (Disj/DFSDisj::from_conjunctions, Conj::from_vec, pairwise Disj::new / Conj::new) instead of the operators the macros expand to. Exploration.",
         REFI),
 "C07": (PBT + ": bounded liveness in engine steps (step-counter hook): obligations from each branch run alone must appear in the whole disjunction within a generous step bound",
         "Disjunctions mixing finite goals, infinite producers and silent divergers at several nesting positions; each branch's first answers (run alone) must be produced by the whole disjunction within 256x their cost + 10000 steps (10x confirm run). A scale family uses disjunctions of up to 200/600 branches and divergers buried below up to 400/1000 pending conjunctions. A third of the cases each is built as the macros expand, with from_conjunctions, and with nested Disj::new. Decides starvation/divergence, not mere slowness. Exploration.",
         "Needs the cfg-guarded step counter in StreamEngine::step; bounded liveness only."),
 "C08": (PBT + ": metamorphic relation between a committed-choice program and the program with the committed head (conda) or its first head answer re-imposed (condu/onceo); reference interpreter for conda and matcha/matchu",
         "conda/condu/onceo over generated heads with 0/1/many/lazy/infinite answers and generated rest goals; matcha/matchu built dynamically; conda over finite-domain posting sequences cut into prefix | head | rest; heads whose first answer needs up to millions of engine steps (scale); matcha/matchu in macro syntax through the compile pipeline (450 / 6000 generated programs, reference expansion as oracle). Exploration.",
         REFI),
 "C09": (PBT + ": run-to-run differential (same Query object twice, 4 rebuilt runs, 2 re-exec'd child processes with fresh hash seeds), fusedness invariant, bounded-step laziness check",
         "Canonical answer sequences of tree, search and CLP(FD) programs must be identical position by position across repeated runs and processes; the iterator must stay None; take(n) of productive infinite programs must finish within a step budget. The reported constraints must agree syntactically (up to renaming, order of constraints, order and orientation of pairs), not only semantically. Extra families: multi-pair disequalities with chained variables, finite-domain branches ending in a multi-binding unification next to a sibling branch, and programs with one large dimension. Exploration; hash seeds are sampled, not enumerated.",
         "std RandomState cannot be controlled from outside: other processes' seeds are sampled. Needs the step-counter hook for the laziness half."),
 "C10": (PBT + ": metamorphic relation - conde{A,B[,C]} after a shared prefix equals the multiset union of the branches run alone, in both branch orders, with an instrumented User type",
         "Shared prefixes with pending constraints (disequalities, plusz/timesz, FD domains, distinctfd) and user-state updates followed by 2-3 branches from the same vocabulary; the user counter is exposed as a query variable when some goal updates it. A second family posts FD constraints before any domain, aims the branches' bindings at one prefix constraint (violate / satisfy / unrelated) and posts the domains after the disjunction. A third of the cases each is built as the macros expand, with from_conjunctions, and with nested Disj::new. Exploration.",
         "Implementation compared with itself; answers compared up to renaming and constraint equivalence."),
 "C11": (PBT + " against the reference interpreter (project = body evaluated on the walked value per state); failures with >=2 states reaching the goal are the listed known finding",
         "Programs where 0-4 states reach a project goal with non-relational fngoal bodies (also resumed later); multiset equality with the reference and no panic. The single-state cases are fully checked (also with alias chains and projected terms of hundreds of levels); multi-state cases hit C11-project-reached-twice. Exploration.",
         REFI),
 "C12": (PBT + ": metamorphic relation for-loop vs explicit per-element conjunction, plus reference interpreter (tree bodies)",
         "everyg with collections of 0-4 terms (Vec and LTerm list), bodies over the loop variable, query variables and a body-local fresh variable on which the body may make its own choice (tree and FD bodies); a second family uses collections of up to 400/1000 elements, a third iterates a collection that is known only at solve time (`for x in &l` below `project |l|`); elements may be lists themselves (nested `for`, domains on element lists). Exploration. The surface `for` form is covered by C14's compile pipeline.",
         REFI),
 "C13": ("property-based testing through a compile pipeline: generated match/matche/matcha/matchu programs are emitted as Rust source, compiled against the current tree in one cargo build, run, and compared with the reference evaluation of the documented expansion and with the dynamic build of the same AST",
         "1350 (quick) / 12000 (thorough) generated pattern-matching programs per run exercise literal, [], `_`, proper/improper list and compound patterns, repeated names, `p1 | p2` alternatives, empty bodies, shadowing pattern variables; answers must equal the reference's as multisets. Exploration.",
         REFI + " A generated program that fails to compile counts as a generator problem (tolerated up to 2%)."),
 "C14": ("property-based testing through a compile pipeline over the whole clause grammar (fresh, ==, !=, conjunctions in operators, conde/cond, closure, for, relation calls, literals of every kind, nested proper/improper lists, `_`, `{expr}` and lterm! arguments, compound constructors), against the reference interpreter and the dynamic build; results read by field name, Display order checked",
         "1350 / 12000 generated surface programs per run, compiled against the current tree and run. Exploration.",
         REFI + " A generated program that fails to compile counts as a generator problem (tolerated up to 2%)."),
 "C15": ("property-based testing through a compile pipeline: each generated program with shadowing / sibling / recursive scopes is emitted twice (shadowing names, alpha-renamed unique names); metamorphic equality of both plus reference interpreter (resolves ids, not names) plus dynamic build",
         "450 / 6000 generated programs per run (two compiled modules each). Exploration.",
         REFI + " A generated program that fails to compile counts as a generator problem (tolerated up to 2%)."),
 "C16": (PBT + " against brute-force enumeration of the domain product (soundness verdict)",
         "Generated CLP(FD) programs with aliasing, signed domains, sparse domains, hidden variables, shuffled posting order, list/compound query terms; every answer must be a brute-force solution. A wide-domains family uses intervals of up to 300/1200 values and sparse domains of up to 150 values, several per variable. Exploration.",
         "Trusts the brute-force model (model/fdbrute.rs)."),
 "C17": (PBT + " against brute-force enumeration of the domain product (completeness and uniqueness verdict)",
         "Same generator as C16; every brute-force solution projected on the query term must be returned exactly once. Exploration.",
         "Trusts the brute-force model (model/fdbrute.rs)."),
 "C18": (PBT + " against a BTreeSet reference model + exhaustive enumeration of all subset pairs of a 6-value window in thorough",
         "Every public FiniteDomain operation is compared with a BTreeSet model on millions of domain pairs in both representations and both argument orders, plus O(1) operations on extreme isize bounds, plus domains of up to 300/2000 elements near 0, 10^9, isize::MAX and isize::MIN; thorough also enumerates a finite sub-space completely. Exploration.",
         "Trusts std BTreeSet and the harness's small model; domains are non-empty."),
 "C19": (PBT + " against an integer-arithmetic fixpoint oracle; exhaustive enumeration of one constraint over all groundness patterns, posting orders and values -2..=2 in both tiers",
         "plusz/timesz programs with bindings in every order, aliasing and chains: consistent => exactly the determined integers, inconsistent => no answer, 0*r=0 leaves r free, never a panic; undecided (algebra) cases get soundness only. Extra families: cascades of up to 400/1000 pending constraints posted along or against the value flow, and pending constraints followed by a disjunction whose branches bind and alias the operands. Exploration plus a completely enumerated sub-space.",
         "Trusts the 80-line arithmetic oracle in props/c19.rs."),
 "C20": (PBT + ": metamorphic relation compound program vs twin with every constructor encoded as a tagged proper list, plus reference interpreter",
         "==/!= programs over eight compound kinds (unnamed, named, same-shape-different-type, same-identifier-other-module, recursive typed, Option-typed field, Rust tuple) mixed with lists and literals, and CLP(FD) programs with compound query terms; answers under the encoding must equal the twin's. Exploration.",
         REFI),
 "C21": (PBT + " against structural equality on the AST and a Vec(+tail) model of the list API",
         "Triples of related terms (clone, rebuilt copy, one-point mutation): ==, Hash consistency, and every list operation (constructors, iter, iter_mut, Index/IndexMut, extend, head/tail, predicates, contains, Display) against the model; also on spines of up to 400/1000 levels. Exploration.",
         "Trusts the harness's AST equality and its 40-line model."),
 "C22": (PBT + " with an instrumented User type: history invariants at probe goals after every goal, and reference path traces",
         "Generated programs run with a User type counting with_constraint/take_constraint/process_extension; balance with the store size is checked at a probe after every goal (also on failing branches), at the end of the body and after reification; extension bindings are checked against the substitution; probe traces and extension counts per answer against the reference path; a scale family keeps hundreds of constraints in the store (subsumption events included) or uses wide finite domains. Exploration.",
         REFI),
 "C23": (PBT + ": crash oracle (catch_unwind per case, panic keyed by message and file) over every generator of the framework at enlarged bounds, BFS and DFS builds",
         "No panic other than the step-budget payload on several hundred thousand generated well-formed programs per run (overflow checks and debug assertions on), including programs with one large dimension (terms, chains of bindings, stored constraints, clauses, recursion depth, domain width in the hundreds). Exploration.",
         "Well-formedness is enforced by construction in the generators."),
 "C24": (PBT + " (solution-first generation, every argument mode) against Vec-based definitions; exhaustive ground mode and one-hole modes over lists of length <=3 over {1,2} in thorough",
         "Each of the ten list relations is queried in ground, partially ground and fresh modes derived from constructed solutions and perturbed non-solutions (a second family: lists of up to 150/600 elements in ground, one-argument-fresh, element-hole and open-tail modes); soundness of every answer instance, ground-mode equivalence, documented multiplicities of member/member1, coverage of the seed solution in finite modes. permute's sub-list answers are the listed known finding. Exploration plus an enumerated sub-space.",
         "Trusts model/listrel.rs (60 lines)."),
}
CLAIMED = {k: (TABLE[k][0], TABLE[k][1], TABLE[k][2], "DESIGN.md §7 " + k) for k in IMPLEMENTED}
PENDING_REASON = "check not implemented yet in this revision of the framework (work in progress; see DESIGN.md §7 for the planned generator and oracle)"

props = [json.loads(l) for l in open(os.path.join(HERE, "properties.jsonl"))]
checks, na = [], []
for p in props:
    pid = p["id"]
    if pid in CLAIMED:
        tech, text, note, ref = CLAIMED[pid]
        checks.append({
            "property_id": pid,
            "quick_cmd": f"./check {pid} quick",
            "thorough_cmd": f"./check {pid} thorough",
            "evidence_file": f"/verif/evidence/{pid}.json",
            "replay_cmd_template": "./check --replay {path}",
            "engine": "pvh",
            "level_claimed": {"category": "exploration", "text": text, "design_ref": ref},
            "level_note": note,
            "technique": tech,
        })
    else:
        na.append({"property_id": pid, "reason": PENDING_REASON})

manifest = {
    "version": 1,
    "setup_cmd": "cd /verif/harness && CARGO_NET_OFFLINE=true cargo build --release --offline",
    "hooks": {
        "guard": "--cfg terohuttunen_proto_vulcan_verif",
        "enable": "harness/.cargo/config.toml sets build.rustflags = [\"--cfg\", \"terohuttunen_proto_vulcan_verif\"], which also reaches the path dependency on /repo; the hook is src/verif_hooks.rs (thread-local engine step counter + budget) and one call at the top of StreamEngine::step",
        "baseline_off_cmd": "cd /repo && CARGO_NET_OFFLINE=true cargo test --workspace --no-fail-fast --offline",
        "source_commits": hook_commits(),
        "add_only": True,
    },
    "engines": [
        {"name": "pvh", "path": "/verif/harness", "serves_properties": sorted(CLAIMED.keys()),
         "kind_free_text": "Rust crate (lib pvh + bin pvcheck): byte-driven generators decoded from proptest-generated byte strings, reference models, dynamic goal builder over proto-vulcan's public API, surface-syntax emitter + compile pipeline (generated crates under work/), seeded 16-thread proptest driver with shrinking, replay files, evidence writer"},
    ],
    "checks": checks,
    "not_applicable": na,
    "notes": "Exit codes of every check: 0 held (KNOWN-FINDING lines allowed), 1 violation (VIOLATION property=<id> replay=<path>), 2 infrastructure problem / inconclusive. VERIF_SEED selects the seed of all 16 proptest runners. known_findings.json lists recorded defects and fix: commits.",
}
json.dump(manifest, open(os.path.join(HERE, "MANIFEST.json"), "w"), indent=1)
print("claimed:", len(checks), "pending:", len(na))
