#!/bin/bash
# try_seed.sh <patch.diff> <ID> [<ID> ...]  — apply a seeded change to /repo, run the quick checks,
# undo it straight afterwards. Prints one line per check: <ID> exit=<code> <last summary line>.
set -u
PATCH="$(readlink -f "$1")"; shift
cd /verif
git -C /repo apply "$PATCH" || { echo "patch does not apply"; exit 3; }
# evidence files describe the unchanged tree: keep them out of the way while a seeded change is applied
EVBAK=$(mktemp -d /tmp/evbak.XXXXXX); cp -a evidence/. "$EVBAK"/ 2>/dev/null
trap 'git -C /repo checkout -- . ; git -C /repo clean -fdq -- examples 2>/dev/null; cp -a "$EVBAK"/. /verif/evidence/ 2>/dev/null; rm -rf "$EVBAK"' EXIT
for ID in "$@"; do
  OUT=$(timeout 3000 ./check "$ID" quick 2>/tmp/try_seed_err.log); RC=$?
  echo "$ID exit=$RC $(echo "$OUT" | grep -E "^$ID (quick|thorough)" | tail -n1)"
  echo "$OUT" | grep -E "^VIOLATION" | head -3
  if [ $RC -eq 1 ]; then grep -A6 "^--- violation" /tmp/try_seed_err.log | head -14; fi
done
