//! One coverage-guided target for every byte-driven family of the harness: the family is
//! selected with PVH_FUZZ_TARGET=<property>:<family> (e.g. C16:fd-full). The bytes go through the
//! same decoder and the same oracle as in the proptest driver; a violation aborts the process,
//! so libFuzzer's crash artifact *is* the replay input.
#![no_main]
use libfuzzer_sys::fuzz_target;

fuzz_target!(|data: &[u8]| {
    pvh::fuzz::entry(data);
});
