//! Shared oracle helpers: implementation vs reference interpreter, metamorphic permutations.

use crate::ast::{Goal, Program, Term};
use crate::canon::{self, Universe};
use crate::guard::PanicInfo;
use crate::model::interp::{self, InterpErr};
use crate::run::{self, Answer, End, Limits, Mode, Outcome};
use crate::source::Source;

pub const REF_FUEL: u64 = 200_000;

pub enum RefResult {
    Answers(Vec<Answer>),
    Skip(&'static str),
}

pub fn reference_answers(p: &Program) -> RefResult {
    match interp::answers(p, REF_FUEL) {
        Ok(v) => RefResult::Answers(v.iter().map(canon::from_ref).collect()),
        Err(InterpErr::Fuel) => RefResult::Skip("ref-fuel"),
        Err(InterpErr::Infinite) => RefResult::Skip("ref-infinite"),
        Err(InterpErr::Unsupported(_)) => RefResult::Skip("ref-unsupported"),
    }
}

pub enum Verdict {
    Ok,
    Skip(&'static str),
    Fail(String, String),
}

pub fn describe_end(out: &Outcome) -> Option<(&'static str, Option<&PanicInfo>)> {
    match &out.end {
        End::Exhausted => None,
        End::Truncated => Some(("impl-truncated", None)),
        End::Budget(_) => Some(("impl-budget", None)),
        End::Panic(p) => Some(("panic", Some(p))),
    }
}

/// multiset(impl answers) == multiset(reference answers)
pub fn compare_with_reference(prop: &str, p: &Program, out: &Outcome, reference: &[Answer], u: &Universe) -> Verdict {
    match describe_end(out) {
        Some(("panic", Some(pi))) => {
            return Verdict::Fail(format!("{}:panic:{}", prop, pi.key()), format!("{}\n  panicked: {} at {}", p.show(), pi.message, pi.location));
        }
        Some((why, _)) => return Verdict::Skip(why),
        None => {}
    }
    match canon::multiset_cmp(&out.answers, reference, u) {
        Ok(None) => Verdict::Ok,
        Err(()) => Verdict::Skip("too-big"),
        Ok(Some(d)) => {
            let sig = if d.only_left.is_empty() {
                "missing-answer"
            } else if d.only_right.is_empty() {
                "extra-answer"
            } else {
                "different-answers"
            };
            Verdict::Fail(
                format!("{}:{}", prop, sig),
                format!(
                    "{}\n  implementation: {}\n  reference:      {}\n  only implementation: {}\n  only reference:      {}",
                    p.show(),
                    run::show_answers(&out.answers),
                    run::show_answers(reference),
                    run::show_answers(&d.only_left),
                    run::show_answers(&d.only_right)
                ),
            )
        }
    }
}

/// Permute every goal list (and, if `clauses`, every clause list) of the program.
pub fn permuted(p: &Program, s: &mut Source, clauses: bool) -> Program {
    let mut fl = |gs: &[Goal], _pos| -> Vec<Goal> {
        let perm = s.permutation(gs.len());
        perm.into_iter().map(|i| gs[i].clone()).collect()
    };
    // clause permutation driven by a second pass (cannot borrow `s` twice)
    let top = Goal::Conj(p.body.clone());
    let mut fc_id = |c: Vec<Vec<Goal>>| c;
    let g = top.map_lists(&mut fl, &mut fc_id);
    let g = if clauses {
        let mut fl_id = |gs: &[Goal], _pos| gs.to_vec();
        let mut fc = |c: Vec<Vec<Goal>>| -> Vec<Vec<Goal>> {
            let perm = s.permutation(c.len());
            perm.into_iter().map(|i| c[i].clone()).collect()
        };
        g.map_lists(&mut fl_id, &mut fc)
    } else {
        g
    };
    match g {
        Goal::Conj(body) => Program { nq: p.nq, body },
        _ => unreachable!(),
    }
}

pub fn run_all(p: &Program, mode: Mode) -> Outcome {
    run::run(p, mode, Limits::all())
}

pub fn ground_tuple(s: &mut Source, u: &Universe, n: usize) -> Vec<Term> {
    (0..n).map(|_| u.0[s.below(u.0.len())].clone()).collect()
}
