use pvh::ast::*;
use pvh::run::{self, Limits, Mode};
fn main() {
    pvh::guard::install();
    let p = Program {
        nq: 2,
        body: vec![
            Goal::Fresh(vec![2], vec![Goal::Call(Rel::Nat, vec![Term::Var(2)]), Goal::Eq(Term::Var(0), Term::cons(Term::Int(7), Term::Var(2)))]),
            Goal::Conde(vec![vec![Goal::Fail], vec![Goal::Eq(Term::Var(0), Term::list(vec![Term::Var(1)]))]]),
        ],
    };
    let budget: u64 = std::env::args().nth(1).and_then(|s| s.parse().ok()).unwrap_or(1000);
    let t = std::time::Instant::now();
    let out = run::run(&p, Mode::Bfs, Limits::first(25, budget));
    let t2 = std::time::Instant::now();
    let h = pvh::model::interp::holds(&p, &[Term::ints(&[7]), Term::Int(7)], 4000);
    println!("holds {:?} in {:?}", h, t2.elapsed());
    println!("{} answers {:?} end {:?} in {:?}", p.show(), run::show_answers(&out.answers), out.end, t.elapsed());
}
