use pvh::ast::*;
use pvh::run::{self, Limits, Mode};
fn main() {
    pvh::guard::install();
    let v = |i: u32| Term::Var(i);
    let which: usize = std::env::args().nth(1).and_then(|s| s.parse().ok()).unwrap_or(0);
    let a = vec![Goal::Eq(v(2), Term::Int(1)), Goal::Eq(v(3), Term::Int(1))];
    let b = vec![Goal::Eq(v(0), Term::Int(2)), Goal::Eq(v(1), Term::Int(2))];
    let mut body = vec![
        Goal::Fd(FdGoal::Distinct(Term::list(vec![v(0), v(1)]))),
        Goal::Conde(vec![a, b]),
        Goal::Fd(FdGoal::InFdRange(Term::list(vec![v(0), v(1)]), 1, 3)),
    ];
    if which == 1 { body.push(Goal::ReadUser(v(4))); }
    if which == 2 { body = vec![Goal::Fresh(vec![5,6,7,8], { let mut b2 = vec![Goal::Eq(v(0), Term::list(vec![v(5),v(6),v(7),v(8)]))]; b2.extend(body.iter().map(|g| pvh::model::interp::rename_goal(g, &[(0,5),(1,6),(2,7),(3,8)]))); b2 })]; }
    let p = Program { nq: 5, body };
    println!("{}", p.show());
    let out = run::run(&p, Mode::Bfs, Limits { max_answers: 100000, budget: 1 << 40 });
    println!("{} answers {} end {:?}", out.answers.len(), run::show_answers(&out.answers), out.end);
}
