fn main() {
    let text = std::fs::read_to_string("/tmp/c14run.out").unwrap();
    for line in text.lines() {
        if let Some(rest) = line.strip_prefix("CASE ") {
            if let Some((id, js)) = rest.split_once(' ') {
                if let Err(e) = serde_json::from_str::<pvh::pipeline::CaseOut>(js) {
                    println!("case {} fails: {} :: {}", id, e, &js[..js.len().min(600)]);
                }
            }
        }
    }
}
