use pvh::ast::*;
use pvh::run::{self, Limits, Mode};
fn main() {
    pvh::guard::install();
    // q0; u=1 v=2 w=3 a=4 p=5 r=6 ; m=7
    let v = |i: u32| Term::Var(i);
    let a = vec![
        Goal::Fd(FdGoal::InFdRange(Term::list(vec![v(1), v(2), v(4), v(5), v(6)]), 0, 4)),
        Goal::Fd(FdGoal::InFdRange(v(3), 2, 4)),
        Goal::Fd(FdGoal::Lte(v(2), v(1))),
        Goal::Fd(FdGoal::Lte(v(4), v(2))),
        Goal::Eq(v(0), Term::list(vec![v(1), v(2), v(3), v(5)])),
        Goal::Eq(Term::list(vec![v(5), v(3)]), Term::list(vec![v(6), v(4)])),
    ];
    let b = vec![Goal::Fresh(vec![7], vec![Goal::Call(Rel::Member, vec![v(7), Term::ints(&(100..121).collect::<Vec<i64>>())]), Goal::Eq(v(0), Term::list(vec![v(7)]))])];
    let p = Program { nq: 1, body: vec![Goal::Conde(vec![vec![Goal::Fresh(vec![1, 2, 3, 4, 5, 6], a)], b])] };
    println!("{}", p.show());
    let first = run::run(&p, Mode::Bfs, Limits::all());
    let mut diff = 0;
    for _ in 0..60 {
        let o = run::run(&p, Mode::Bfs, Limits::all());
        if o.answers != first.answers { diff += 1; }
    }
    println!("{} answers; {} of 60 rebuilds differ", first.answers.len(), diff);
}
