use pvh::ast::*;
use pvh::run::{self, Limits, Mode};
fn main() {
    pvh::guard::install();
    let cl = Goal::Closure(vec![Goal::Fresh(vec![5], vec![Goal::Call(Rel::Member, vec![Term::Var(5), Term::ints(&[1, 2])])])]);
    for p in [
        Program { nq: 1, body: vec![cl.clone(), cl.clone()] },
        Program { nq: 1, body: vec![Goal::Conj(vec![cl.clone(), cl.clone()])] },
        Program { nq: 1, body: vec![Goal::Conde(vec![vec![cl.clone(), cl.clone()]])] },
    ] {
        let out = run::run(&p, Mode::Bfs, Limits::all());
        println!("{} -> {} answers", p.show(), out.answers.len());
    }
}
