//! Property framework: case protocol, seeded proptest driver over byte strings, statistics,
//! evidence and replay files, known-finding handling, exit codes.

use crate::source::{hash_str, hex, splitmix, unhex};
use proptest::strategy::{Strategy, ValueTree};
use proptest::test_runner::{Config, RngSeed, TestCaseError, TestError, TestRunner};
use serde_json::{json, Value};
use std::cell::{Cell, RefCell};
use std::collections::{BTreeMap, HashSet};
use std::time::Instant;

/// Root of the verification tree (the directory of the `check` script, which exports it).
pub fn verif_dir() -> String {
    std::env::var("PVH_VERIF_DIR").unwrap_or_else(|_| "/verif".to_string())
}
pub const WORKERS: usize = 16;
pub const WORKER_STACK: usize = 512 << 20;
pub const DEFAULT_SEED: u64 = 20260921;

#[derive(Clone, Copy, PartialEq, Eq, Debug)]
pub enum Tier {
    Quick,
    Thorough,
}

impl Tier {
    pub fn name(self) -> &'static str {
        match self {
            Tier::Quick => "quick",
            Tier::Thorough => "thorough",
        }
    }
}

#[derive(Clone, Copy, Debug)]
pub struct Ctx {
    pub tier: Tier,
    /// strict: do not suppress failures that match a known finding (used by `replay --strict`)
    pub strict: bool,
    /// the case should fill in `CaseInfo::sample`
    pub want_sample: bool,
}

#[derive(Clone, Debug)]
pub struct Failure {
    /// short stable signature; failures with the same signature are one violation
    pub signature: String,
    /// human readable: the case, expected vs observed
    pub detail: String,
}

#[derive(Clone, Debug, Default)]
pub struct CaseInfo {
    pub key: u64,
    pub nontrivial: bool,
    pub classes: Vec<&'static str>,
    pub skip: Option<&'static str>,
    pub failure: Option<Failure>,
    /// ids of known findings whose signature matched a failure of this case (suppressed)
    pub known: Vec<&'static str>,
    pub sample: Option<Value>,
}

impl CaseInfo {
    pub fn skip(reason: &'static str) -> CaseInfo {
        CaseInfo {
            skip: Some(reason),
            ..Default::default()
        }
    }
    pub fn class(&mut self, c: &'static str) {
        if !self.classes.contains(&c) {
            self.classes.push(c);
        }
    }
    pub fn fail(&mut self, signature: impl Into<String>, detail: impl Into<String>) {
        if self.failure.is_none() {
            self.failure = Some(Failure {
                signature: signature.into(),
                detail: detail.into(),
            });
        }
    }
}

pub struct Family {
    pub name: &'static str,
    pub max_len: usize,
    pub quick: u64,
    pub thorough: u64,
    pub run: fn(&[u8], &Ctx) -> CaseInfo,
}

pub struct Fixed {
    pub name: &'static str,
    pub run: fn(&Ctx) -> CaseInfo,
}

/// A witness re-checks the minimal input of a listed known finding. `Some(what)` = the defect
/// is still present.
pub struct Witness {
    pub finding: &'static str,
    pub run: fn() -> Option<String>,
}

pub type Emit<'a> = &'a mut dyn FnMut(CaseInfo);

pub struct PropertyDef {
    pub id: &'static str,
    pub rule: &'static str,
    pub assumptions: Vec<&'static str>,
    pub families: Vec<Family>,
    pub fixed: Vec<Fixed>,
    pub witnesses: Vec<Witness>,
    /// exhaustive enumeration of a finite sub-space; returns a description of the space
    pub exhaustive: Option<fn(&Ctx, Emit) -> String>,
    /// run the exhaustive part in the quick tier too
    pub exhaustive_in_quick: bool,
    /// a driver of its own (compile pipeline): fills the statistics; Err = infrastructure problem
    pub custom: Option<fn(Tier, u64, &mut Stats) -> Result<(), String>>,
    /// replay of one case of a custom-driven family: (family, bytes) -> case result
    pub custom_replay: Option<fn(&str, &[u8], &Ctx) -> Result<CaseInfo, String>>,
}

#[derive(Default)]
pub struct Stats {
    pub evaluations: u64,
    pub nontrivial: u64,
    pub distinct: HashSet<u64>,
    pub classes: BTreeMap<&'static str, u64>,
    pub skips: BTreeMap<&'static str, u64>,
    pub known: BTreeMap<&'static str, u64>,
    pub samples: Vec<Value>,
    pub failures: Vec<(String, Failure, Option<Vec<u8>>)>, // (family, failure, bytes)
}

impl Stats {
    pub fn record(&mut self, info: &CaseInfo) {
        self.evaluations += 1;
        if let Some(s) = info.skip {
            *self.skips.entry(s).or_insert(0) += 1;
        }
        for c in &info.classes {
            *self.classes.entry(c).or_insert(0) += 1;
        }
        for k in &info.known {
            *self.known.entry(k).or_insert(0) += 1;
        }
        if info.nontrivial && info.skip.is_none() {
            self.nontrivial += 1;
            self.distinct.insert(info.key);
            if let Some(s) = &info.sample {
                if self.samples.len() < 8 {
                    self.samples.push(s.clone());
                }
            }
        }
    }

    pub fn merge(&mut self, other: Stats) {
        self.evaluations += other.evaluations;
        self.nontrivial += other.nontrivial;
        self.distinct.extend(other.distinct);
        for (k, v) in other.classes {
            *self.classes.entry(k).or_insert(0) += v;
        }
        for (k, v) in other.skips {
            *self.skips.entry(k).or_insert(0) += v;
        }
        for (k, v) in other.known {
            *self.known.entry(k).or_insert(0) += v;
        }
        for s in other.samples {
            if self.samples.len() < 8 {
                self.samples.push(s);
            }
        }
        self.failures.extend(other.failures);
    }
}

fn worker(
    fam_run: fn(&[u8], &Ctx) -> CaseInfo,
    fam_name: &'static str,
    max_len: usize,
    cases: u64,
    seed: u64,
    tier: Tier,
    sampler: bool,
) -> Stats {
    let stats = RefCell::new(Stats::default());
    if cases == 0 {
        return stats.into_inner();
    }
    let first_sig: RefCell<Option<String>> = RefCell::new(None);
    // wall-clock cap on shrinking only (never on the verdict): candidates tried after the cap are
    // reported to proptest as passing without being evaluated, which ends the shrink quickly
    let fail_at: Cell<Option<Instant>> = Cell::new(None);
    let nsamples = Cell::new(0usize);
    let trace = std::env::var("PVH_TRACE").is_ok();
    let config = Config {
        cases: cases.min(u32::MAX as u64) as u32,
        failure_persistence: None,
        rng_seed: RngSeed::Fixed(seed),
        max_shrink_iters: 3000,
        verbose: 0,
        ..Config::default()
    };
    let mut runner = TestRunner::new(config);
    let strategy = proptest::collection::vec(proptest::num::u8::ANY, (max_len / 4)..=max_len);
    let result = runner.run(&strategy, |bytes| {
        let failed_before = first_sig.borrow().is_some();
        if let Some(t) = fail_at.get() {
            if t.elapsed().as_secs() >= 25 {
                return Ok(());
            }
        }
        let ctx = Ctx {
            tier,
            strict: false,
            want_sample: sampler && !failed_before && nsamples.get() < 8,
        };
        if trace {
            eprintln!("TRACE {} {} {:?}", fam_name, hex(&bytes), std::thread::current().id());
        }
        crate::crash::enter(fam_name, &bytes);
        let info = fam_run(&bytes, &ctx);
        crate::crash::leave();
        if !failed_before {
            if info.nontrivial && info.sample.is_some() && info.skip.is_none() {
                nsamples.set(nsamples.get() + 1);
            }
            stats.borrow_mut().record(&info);
        }
        match info.failure {
            None => Ok(()),
            Some(f) => {
                let mut fs = first_sig.borrow_mut();
                match &*fs {
                    None => {
                        *fs = Some(f.signature.clone());
                        fail_at.set(Some(Instant::now()));
                        Err(TestCaseError::fail(f.signature))
                    }
                    Some(sig) if *sig == f.signature => Err(TestCaseError::fail(f.signature)),
                    // a different failure met while shrinking: not "the same failure"
                    Some(_) => Ok(()),
                }
            }
        }
    });
    let mut stats = stats.into_inner();
    match result {
        Ok(()) => {}
        Err(TestError::Fail(_, bytes)) => {
            let ctx = Ctx {
                tier,
                strict: false,
                want_sample: true,
            };
            crate::crash::enter(fam_name, &bytes);
            let info = fam_run(&bytes, &ctx);
            crate::crash::leave();
            let failure = info.failure.unwrap_or(Failure {
                signature: first_sig.borrow().clone().unwrap_or_default(),
                detail: "failure did not reproduce on the shrunk input (flaky?)".into(),
            });
            stats.failures.push((fam_name.to_string(), failure, Some(bytes)));
        }
        Err(TestError::Abort(reason)) => {
            stats.failures.push((
                fam_name.to_string(),
                Failure {
                    signature: "proptest-abort".into(),
                    detail: format!("proptest aborted: {}", reason),
                },
                None,
            ));
        }
    }
    stats
}

pub fn run_family(fam: &Family, prop_id: &str, tier: Tier, seed: u64) -> Stats {
    let total = match tier {
        Tier::Quick => fam.quick,
        Tier::Thorough => fam.thorough,
    };
    // PVH_WORKERS is a debugging aid; the registered commands always use 16 workers
    let nworkers = std::env::var("PVH_WORKERS").ok().and_then(|s| s.parse::<usize>().ok()).unwrap_or(WORKERS).max(1);
    let per = (total + nworkers as u64 - 1) / nworkers as u64;
    let base = splitmix(seed ^ hash_str(prop_id) ^ hash_str(fam.name).rotate_left(17));
    let mut handles = vec![];
    for w in 0..nworkers {
        let run = fam.run;
        let name = fam.name;
        let max_len = fam.max_len;
        let wseed = splitmix(base.wrapping_add(w as u64));
        let h = std::thread::Builder::new()
            .stack_size(WORKER_STACK)
            .spawn(move || worker(run, name, max_len, per, wseed, tier, w == 0))
            .expect("spawn worker");
        handles.push(h);
    }
    let mut stats = Stats::default();
    for h in handles {
        match h.join() {
            Ok(s) => stats.merge(s),
            Err(_) => stats.failures.push((
                fam.name.to_string(),
                Failure {
                    signature: "worker-crashed".into(),
                    detail: "a worker thread panicked outside a guarded case".into(),
                },
                None,
            )),
        }
    }
    stats
}

/// Generate one byte string of the given family deterministically (used by the compile
/// pipeline, which needs values rather than a closure-driven run).
pub fn sample_bytes(seed: u64, max_len: usize, n: usize) -> Vec<Vec<u8>> {
    let config = Config {
        failure_persistence: None,
        rng_seed: RngSeed::Fixed(seed),
        ..Config::default()
    };
    let mut runner = TestRunner::new(config);
    let strategy = proptest::collection::vec(proptest::num::u8::ANY, (max_len / 4)..=max_len);
    (0..n)
        .map(|_| strategy.new_tree(&mut runner).expect("new_tree").current())
        .collect()
}

#[derive(Clone, Debug)]
pub struct KnownFinding {
    pub id: String,
    pub property: String,
    pub status: String, // "open" | "fixed"
    pub what: String,
}

pub fn load_known() -> Vec<KnownFinding> {
    let path = format!("{}/known_findings.json", verif_dir());
    let text = match std::fs::read_to_string(&path) {
        Ok(t) => t,
        Err(_) => return vec![],
    };
    let v: Value = serde_json::from_str(&text).expect("known_findings.json must parse");
    let mut out = vec![];
    if let Some(arr) = v.get("findings").and_then(|a| a.as_array()) {
        for e in arr {
            out.push(KnownFinding {
                id: e["id"].as_str().unwrap_or("").to_string(),
                property: e["property"].as_str().unwrap_or("").to_string(),
                status: e["status"].as_str().unwrap_or("open").to_string(),
                what: e["what"].as_str().unwrap_or("").to_string(),
            });
        }
    }
    out
}

thread_local! {
    static OPEN_FINDINGS: RefCell<Option<HashSet<String>>> = RefCell::new(None);
}

static OPEN_GLOBAL: std::sync::OnceLock<HashSet<String>> = std::sync::OnceLock::new();

/// Is `finding` listed as an open known finding in the committed known_findings.json?
/// Only listed findings may be suppressed; the file is never written at run time.
pub fn finding_is_open(finding: &str) -> bool {
    OPEN_GLOBAL
        .get_or_init(|| {
            load_known()
                .into_iter()
                .filter(|k| k.status == "open")
                .map(|k| k.id)
                .collect()
        })
        .contains(finding)
}

/// Keep evidence samples readable: string fields longer than `max` characters are cut.
pub fn truncate_sample(info: &mut CaseInfo, max: usize) {
    if let Some(Value::Object(m)) = info.sample.as_mut() {
        for (_, v) in m.iter_mut() {
            if let Some(st) = v.as_str() {
                if st.len() > max {
                    let cut: String = st.chars().take(max).collect();
                    *v = json!(format!("{} ... ({} chars)", cut, st.len()));
                }
            }
        }
    }
}

pub struct RunResult {
    pub exit: i32,
}

fn write_replay(prop: &str, family: &str, tier: Tier, seed: u64, f: &Failure, bytes: Option<&[u8]>) -> String {
    let dir = format!("{}/replays/{}", verif_dir(), prop);
    let _ = std::fs::create_dir_all(&dir);
    let h = hash_str(&format!("{}|{}|{}", family, f.signature, bytes.map(hex).unwrap_or_default()));
    let path = format!("{}/{:016x}.json", dir, h);
    let v = json!({
        "property": prop,
        "family": family,
        "tier": tier.name(),
        "seed": seed,
        "bytes": bytes.map(hex),
        "signature": f.signature,
        "detail": f.detail,
        "replay_cmd": format!("./check --replay {}", path),
    });
    let _ = std::fs::write(&path, serde_json::to_string_pretty(&v).unwrap());
    path
}

pub fn run_property(prop: &PropertyDef, tier: Tier, seed: u64) -> RunResult {
    let t0 = Instant::now();
    crate::crash::install(prop.id, &verif_dir(), tier.name());
    let mut stats = Stats::default();
    let mut infra_problem = false;

    // 1. known-finding witnesses (only findings listed as open are announced)
    let known = load_known();
    for k in known.iter().filter(|k| k.property == prop.id && k.status == "open") {
        match prop.witnesses.iter().find(|w| w.finding == k.id) {
            Some(w) => {
                let r = (w.run)();
                if let Some(what) = r {
                    println!("KNOWN-FINDING: property={} {}: {}", prop.id, k.id, what);
                } else {
                    println!(
                        "note: known finding {} no longer reproduces on this tree (nothing suppressed for it matters now)",
                        k.id
                    );
                }
            }
            None => {
                println!("note: known finding {} has no witness in code", k.id);
            }
        }
    }

    // 2. fixed regression cases
    let ctx = Ctx {
        tier,
        strict: false,
        want_sample: true,
    };
    for fx in &prop.fixed {
        crate::crash::enter(&format!("fixed:{}", fx.name), &[]);
        let info = (fx.run)(&ctx);
        crate::crash::leave();
        stats.record(&info);
        if let Some(f) = info.failure {
            stats.failures.push((format!("fixed:{}", fx.name), f, None));
        }
    }

    // 3. committed regression replays (on a thread with the workers' stack size: scale cases recurse
    // as deep as their terms)
    let regdir = format!("{}/replays/regression/{}", verif_dir(), prop.id);
    if let Ok(rd) = std::fs::read_dir(&regdir) {
        let mut files: Vec<_> = rd.filter_map(|e| e.ok()).map(|e| e.path()).collect();
        files.sort();
        let mut jobs: Vec<(String, fn(&[u8], &Ctx) -> CaseInfo, Vec<u8>, Ctx)> = vec![];
        for p in files {
            if p.extension().map(|e| e == "json").unwrap_or(false) {
                if let Some((fam, bytes)) = read_replay(p.to_str().unwrap()) {
                    if let Some(f) = prop.families.iter().find(|f| f.name == fam) {
                        // in the tier the input was found in (thorough inputs only in thorough runs)
                        let file_tier = replay_tier(p.to_str().unwrap());
                        if file_tier == Tier::Thorough && tier == Tier::Quick {
                            continue;
                        }
                        jobs.push((fam.clone(), f.run, bytes, Ctx { tier: file_tier, ..ctx }));
                    }
                }
            }
        }
        let handle = std::thread::Builder::new().stack_size(WORKER_STACK).spawn(move || {
            let mut out: Vec<(String, Vec<u8>, CaseInfo)> = vec![];
            for (fam, run, bytes, rctx) in jobs {
                crate::crash::enter(&fam, &bytes);
                let info = run(&bytes, &rctx);
                crate::crash::leave();
                out.push((fam, bytes, info));
            }
            out
        });
        match handle.map(|h| h.join()) {
            Ok(Ok(results)) => {
                for (fam, bytes, info) in results {
                    stats.record(&info);
                    if let Some(fl) = info.failure {
                        stats.failures.push((fam, fl, Some(bytes)));
                    }
                }
            }
            _ => {
                eprintln!("INFRA: the regression replays could not be run");
                infra_problem = true;
            }
        }
    }

    // 4. generated families
    // debugging aids (not used by the registered commands): PVH_FAMILY=<name> PVH_CASES=<n>
    let only = std::env::var("PVH_FAMILY").ok();
    let cases_override = std::env::var("PVH_CASES").ok().and_then(|s| s.parse::<u64>().ok());
    for fam in &prop.families {
        if let Some(o) = &only {
            if o != fam.name {
                continue;
            }
        }
        let s = match cases_override {
            Some(n) => {
                let f2 = Family { name: fam.name, max_len: fam.max_len, quick: n, thorough: n, run: fam.run };
                run_family(&f2, prop.id, tier, seed)
            }
            None => run_family(fam, prop.id, tier, seed),
        };
        stats.merge(s);
    }

    // 4b. custom driver (compile pipeline)
    if let Some(c) = prop.custom {
        if let Err(e) = c(tier, seed, &mut stats) {
            eprintln!("INFRA: {}", e);
            infra_problem = true;
        }
    }

    // 4c. coverage-guided stage (thorough tier): libFuzzer over the same bytes -> decoder -> oracle
    let mut fuzz_report: Vec<Value> = vec![];
    if tier == Tier::Thorough && std::env::var("PVH_NO_FUZZ").is_err() {
        for (fam_name, runs) in fuzz_plan(prop.id) {
            if let Some(fam) = prop.families.iter().find(|f| f.name == fam_name) {
                match fuzz_stage(prop.id, fam, runs, seed) {
                    Ok((report, crash)) => {
                        fuzz_report.push(report);
                        if let Some(bytes) = crash {
                            let info = (fam.run)(&bytes, &ctx);
                            stats.record(&info);
                            match info.failure {
                                Some(f) => stats.failures.push((fam.name.to_string(), f, Some(bytes))),
                                None => {
                                    eprintln!("INFRA: libFuzzer reported a crash for {}:{} that does not reproduce in-process", prop.id, fam.name);
                                    infra_problem = true;
                                }
                            }
                        }
                    }
                    Err(e) => {
                        eprintln!("note: fuzz stage for {}:{} skipped: {}", prop.id, fam.name, e);
                        fuzz_report.push(json!({"family": fam.name, "skipped": e}));
                    }
                }
            }
        }
    }

    // 5. exhaustive sub-space
    let mut exhaustive_desc = None;
    if let Some(ex) = prop.exhaustive {
        if tier == Tier::Thorough || prop.exhaustive_in_quick {
            let mut local = Stats::default();
            let mut fails = vec![];
            {
                let mut emit = |info: CaseInfo| {
                    local.record(&info);
                    if let Some(f) = info.failure {
                        if fails.len() < 5 {
                            fails.push(f);
                        }
                    }
                };
                let d = ex(&ctx, &mut emit);
                exhaustive_desc = Some(d);
            }
            for f in fails {
                local.failures.push(("exhaustive".into(), f, None));
            }
            stats.merge(local);
        }
    }

    // 6. violations
    let mut seen = HashSet::new();
    let mut violations = 0;
    let mut lines = vec![];
    for (fam, f, bytes) in &stats.failures {
        if f.signature == "proptest-abort" || f.signature == "worker-crashed" {
            infra_problem = true;
            eprintln!("INFRA: {} {}", f.signature, f.detail);
            continue;
        }
        if !seen.insert(f.signature.clone()) {
            continue;
        }
        if violations >= 5 {
            continue;
        }
        violations += 1;
        let path = write_replay(prop.id, fam, tier, seed, f, bytes.as_deref());
        lines.push(format!("VIOLATION property={} replay={}", prop.id, path));
        eprintln!("--- violation [{}] family={} ---\n{}\n", f.signature, fam, f.detail);
    }

    // 7. evidence
    let wall = t0.elapsed().as_secs_f64();
    let mut rule = prop.rule.to_string();
    if let Some(d) = &exhaustive_desc {
        rule.push_str(&format!(" | exhaustive sub-space also enumerated: {}", d));
    }
    let evidence = json!({
        "property_id": prop.id,
        "tier": tier.name(),
        "seed": seed,
        "level": "exploration",
        "coverage": {
            "evaluations": stats.evaluations,
            "nontrivial_total": stats.nontrivial,
            "distinct_nontrivial": stats.distinct.len(),
            "rule": rule,
            "samples": stats.samples,
            "class_histogram": stats.classes.iter().map(|(k,v)| (k.to_string(), json!(v))).collect::<serde_json::Map<String,Value>>(),
            "skipped": stats.skips.iter().map(|(k,v)| (k.to_string(), json!(v))).collect::<serde_json::Map<String,Value>>(),
            "known_finding_hits": stats.known.iter().map(|(k,v)| (k.to_string(), json!(v))).collect::<serde_json::Map<String,Value>>(),
            "families": prop.families.iter().map(|f| json!({"name": f.name, "cases": match tier {Tier::Quick=>f.quick, Tier::Thorough=>f.thorough}, "max_bytes": f.max_len})).collect::<Vec<_>>(),
            "fixed_cases": prop.fixed.len(),
            "exhaustive": false,
            "exhaustive_subspace": exhaustive_desc,
            "workers": WORKERS,
            "libfuzzer_stage": fuzz_report,
        },
        "assumptions": prop.assumptions,
        "wall_s": wall,
        "violations": violations,
    });
    let evdir = format!("{}/evidence", verif_dir());
    let _ = std::fs::create_dir_all(&evdir);
    let evpath = format!("{}/{}.json", evdir, prop.id);
    if let Err(e) = std::fs::write(&evpath, serde_json::to_string_pretty(&evidence).unwrap()) {
        eprintln!("cannot write evidence: {}", e);
        infra_problem = true;
    }

    println!(
        "{} {}: evaluations={} nontrivial={} distinct_nontrivial={} skipped={:?} known_hits={:?} violations={} wall={:.1}s",
        prop.id,
        tier.name(),
        stats.evaluations,
        stats.nontrivial,
        stats.distinct.len(),
        stats.skips,
        stats.known,
        violations,
        wall
    );
    for l in &lines {
        println!("{}", l);
    }
    let exit = if violations > 0 {
        1
    } else if infra_problem {
        2
    } else {
        0
    };
    RunResult { exit }
}

/// Families that get a libFuzzer campaign in the thorough tier, with the number of runs (the
/// ASan build executes only ~50-500 cases per second, each with its full oracle: 60000 runs are
/// 2-20 minutes; `PVH_FUZZ_RUNS` overrides).
fn fuzz_plan(prop: &str) -> Vec<(&'static str, u64)> {
    let runs = std::env::var("PVH_FUZZ_RUNS").ok().and_then(|s| s.parse::<u64>().ok());
    let plan: Vec<(&'static str, u64)> = match prop {
        "C01" => vec![("all-kinds", 60_000), ("lists-dense", 60_000)],
        "C02" => vec![("tree", 60_000), ("flat", 60_000)],
        "C03" => vec![("tree-compound", 60_000), ("relations", 60_000)],
        "C08" => vec![("fd-heads", 60_000)],
        "C09" => vec![("diseq-chains", 60_000), ("fd-multi-binding", 60_000)],
        "C10" => vec![("prefix-branches", 60_000), ("late-domains", 60_000)],
        "C12" => vec![("everyg", 60_000)],
        "C16" => vec![("fd-full", 60_000)],
        "C17" => vec![("fd-full", 60_000)],
        "C18" => vec![("window", 60_000)],
        "C19" => vec![("clpz", 60_000), ("branches", 60_000)],
        "C20" => vec![("tree-compound", 60_000)],
        "C21" => vec![("terms", 60_000)],
        "C22" => vec![("tree", 60_000), ("late-duplicates", 60_000)],
        "C23" => vec![("tree-large", 60_000), ("fd-large", 60_000), ("search-large", 60_000)],
        _ => vec![],
    };
    plan.into_iter().map(|(f, n)| (f, runs.unwrap_or(n))).collect()
}

/// Runs `cargo +nightly fuzz run` on the generic target for one family. Returns a report and
/// the crashing input, if any.
fn fuzz_stage(prop: &str, fam: &Family, runs: u64, seed: u64) -> Result<(Value, Option<Vec<u8>>), String> {
    let root = verif_dir();
    let work = format!("{}/work/fuzz/{}-{}", root, prop, fam.name);
    let corpus = format!("{}/corpus", work);
    let artifacts = format!("{}/artifacts/", work);
    let _ = std::fs::remove_dir_all(&work);
    std::fs::create_dir_all(&corpus).map_err(|e| e.to_string())?;
    std::fs::create_dir_all(&artifacts).map_err(|e| e.to_string())?;
    // a few seeds: the all-zero input of several lengths and a committed seed corpus if present
    for (i, n) in [1usize, fam.max_len / 2, fam.max_len].iter().enumerate() {
        let _ = std::fs::write(format!("{}/zero{}", corpus, i), vec![0u8; *n]);
    }
    let committed = format!("{}/corpus/{}-{}", root, prop, fam.name);
    let t0 = Instant::now();
    let mut cmd = std::process::Command::new("cargo");
    cmd.arg("+nightly").arg("fuzz").arg("run").arg("--fuzz-dir").arg(format!("{}/fuzz", root)).arg("family").arg(&corpus);
    if std::path::Path::new(&committed).is_dir() {
        cmd.arg(&committed);
    }
    cmd.arg("--")
        .arg(format!("-runs={}", runs))
        .arg(format!("-seed={}", (seed % 4_000_000_000).max(1)))
        .arg("-len_control=0")
        .arg(format!("-max_len={}", fam.max_len))
        .arg(format!("-artifact_prefix={}", artifacts))
        // a campaign ends after `runs` cases or 15 minutes, whichever comes first (the amount
        // explored is reported; the verdict never depends on the time)
        .arg(format!("-max_total_time={}", std::env::var("PVH_FUZZ_SECS").ok().and_then(|s| s.parse::<u64>().ok()).unwrap_or(900)))
        .arg("-print_final_stats=1")
        .current_dir(format!("{}/harness", root))
        .env("PVH_FUZZ_TARGET", format!("{}:{}", prop, fam.name))
        .env("RUSTFLAGS", "--cfg terohuttunen_proto_vulcan_verif")
        .env("CARGO_NET_OFFLINE", "true");
    let out = cmd.output().map_err(|e| format!("cannot run cargo fuzz: {}", e))?;
    let err = String::from_utf8_lossy(&out.stderr).to_string();
    if err.contains("no such command: `fuzz`") || err.contains("toolchain 'nightly") {
        return Err("cargo-fuzz / nightly toolchain not available".into());
    }
    let executed = err.lines().find_map(|l| l.strip_prefix("stat::number_of_executed_units:").map(|x| x.trim().parse::<u64>().unwrap_or(0))).unwrap_or(0);
    let corpus_size = std::fs::read_dir(&corpus).map(|d| d.count()).unwrap_or(0);
    let mut crash = None;
    if !out.status.success() {
        if let Ok(rd) = std::fs::read_dir(&artifacts) {
            for e in rd.flatten() {
                if let Ok(b) = std::fs::read(e.path()) {
                    crash = Some(b);
                    break;
                }
            }
        }
        if crash.is_none() {
            let tail: Vec<&str> = err.lines().rev().take(12).collect();
            return Err(format!("cargo fuzz failed without an artifact: {}", tail.into_iter().rev().collect::<Vec<_>>().join(" | ")));
        }
    }
    Ok((json!({"family": fam.name, "engine": "libFuzzer (cargo-fuzz, ASan)", "runs_requested": runs, "executed_units": executed, "corpus_files": corpus_size, "crash": crash.is_some(), "wall_s": t0.elapsed().as_secs_f64()}), crash))
}

pub fn replay_tier(path: &str) -> Tier {
    let tier = std::fs::read_to_string(path).ok().and_then(|t| serde_json::from_str::<Value>(&t).ok()).and_then(|v| v["tier"].as_str().map(|s| s.to_string()));
    if tier.as_deref() == Some("thorough") {
        Tier::Thorough
    } else {
        Tier::Quick
    }
}

pub fn read_replay(path: &str) -> Option<(String, Vec<u8>)> {
    let text = std::fs::read_to_string(path).ok()?;
    let v: Value = serde_json::from_str(&text).ok()?;
    let fam = v["family"].as_str()?.to_string();
    let bytes = unhex(v["bytes"].as_str()?);
    Some((fam, bytes))
}

pub fn replay(props: &[PropertyDef], path: &str, strict: bool) -> i32 {
    let text = match std::fs::read_to_string(path) {
        Ok(t) => t,
        Err(e) => {
            eprintln!("cannot read {}: {}", path, e);
            return 2;
        }
    };
    let v: Value = match serde_json::from_str(&text) {
        Ok(v) => v,
        Err(e) => {
            eprintln!("cannot parse {}: {}", path, e);
            return 2;
        }
    };
    let pid = v["property"].as_str().unwrap_or("");
    let fam = v["family"].as_str().unwrap_or("");
    let prop = match props.iter().find(|p| p.id == pid) {
        Some(p) => p,
        None => {
            eprintln!("unknown property {}", pid);
            return 2;
        }
    };
    // scale families decode the same bytes into larger cases in the thorough tier: a replay file
    // is evaluated in the tier it was found in
    let tier = if v["tier"].as_str() == Some("thorough") { Tier::Thorough } else { Tier::Quick };
    let ctx = Ctx { tier, strict, want_sample: true };
    crate::crash::install(prop.id, &verif_dir(), tier.name());
    crate::crash::enter(fam, &unhex(v["bytes"].as_str().unwrap_or("")));
    let info = if let Some(name) = fam.strip_prefix("fixed:") {
        match prop.fixed.iter().find(|f| f.name == name) {
            Some(f) => (f.run)(&ctx),
            None => {
                eprintln!("unknown fixed case {}", name);
                return 2;
            }
        }
    } else {
        let bytes = unhex(v["bytes"].as_str().unwrap_or(""));
        match prop.families.iter().find(|f| f.name == fam) {
            Some(f) => (f.run)(&bytes, &ctx),
            None => match prop.custom_replay {
                Some(r) => match r(fam, &bytes, &ctx) {
                    Ok(i) => i,
                    Err(e) => {
                        eprintln!("INFRA: {}", e);
                        return 2;
                    }
                },
                None => {
                    eprintln!("unknown family {}", fam);
                    return 2;
                }
            },
        }
    };
    if let Some(s) = &info.sample {
        println!("case: {}", serde_json::to_string_pretty(s).unwrap());
    }
    for k in &info.known {
        println!("KNOWN-FINDING: property={} {} (matched by this replay)", pid, k);
    }
    match info.failure {
        Some(f) => {
            println!("{}", f.detail);
            println!("VIOLATION property={} replay={}", pid, path);
            1
        }
        None => {
            println!("replay: property {} held on this input", pid);
            0
        }
    }
}
