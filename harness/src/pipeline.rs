//! Compile pipeline for the macro properties (C13, C14, C15, surface `for`): generated surface
//! programs are written one per module into a generated crate (`work/<id>/`), compiled in one
//! `cargo build` against the current tree, executed in one process, and their answers come back
//! as JSON lines.

use crate::framework::verif_dir;
use crate::guard::{guarded, Guarded};
use crate::run::{convert, Answer};
use proto_vulcan::lresult::LResult;
use serde::{Deserialize, Serialize};
use std::collections::BTreeMap;
use std::process::Command;

// ---- support used by the generated code ---------------------------------------------------

#[derive(Clone, Debug, Serialize, Deserialize)]
pub struct CaseOut {
    pub answers: Vec<Answer>,
    pub displays: Vec<String>,
    /// "exhausted" | "truncated" | "budget" | "panic: <message> @ <location>"
    pub end: String,
}

pub type AnswerIter<U2, E2> = Box<dyn Iterator<Item = (Vec<LResult<U2, E2>>, String)>>;

pub fn run_case<U2: proto_vulcan::user::User, E2: proto_vulcan::engine::Engine<U2>>(limit: usize, budget: u64, f: impl FnOnce() -> AnswerIter<U2, E2>) -> CaseOut {
    let mut answers = vec![];
    let mut displays = vec![];
    let mut end = "exhausted".to_string();
    let r = guarded(budget, || {
        let mut it = f();
        loop {
            if answers.len() >= limit {
                end = "truncated".to_string();
                break;
            }
            match it.next() {
                Some((results, disp)) => {
                    answers.push(convert(&results).0);
                    displays.push(disp);
                }
                None => break,
            }
        }
    });
    match r {
        Guarded::Ok(()) => {}
        Guarded::Budget(_) => end = "budget".to_string(),
        Guarded::Panic(p) => end = format!("panic: {} @ {}", p.message, p.location),
    }
    CaseOut { answers, displays, end }
}

/// main() of the generated crate
pub fn main_of_generated(cases: Vec<(usize, fn() -> CaseOut)>) {
    crate::guard::install();
    let handle = std::thread::Builder::new()
        .stack_size(512 << 20)
        .spawn(move || {
            for (id, f) in cases {
                let out = f();
                println!("CASE {} {}", id, serde_json::to_string(&out).unwrap());
            }
        })
        .unwrap();
    let _ = handle.join();
}

// ---- driver ---------------------------------------------------------------------------------

pub struct Batch {
    pub dir: String,
    /// ids of cases that did not compile, with the first error line
    pub uncompilable: BTreeMap<usize, String>,
    pub results: BTreeMap<usize, CaseOut>,
    pub build_secs: f64,
}

fn template_cargo(name: &str, harness: &str, repo: &str) -> String {
    format!(
        "[package]\nname = \"{}\"\nversion = \"0.1.0\"\nedition = \"2021\"\n\n[dependencies]\nproto-vulcan = {{ path = \"{}\" }}\npvh = {{ path = \"{}\" }}\nserde_json = \"1\"\n\n[profile.dev]\nopt-level = 0\ndebug = 0\nincremental = false\n\n[workspace]\n",
        name, repo, harness
    )
}

fn write_if_changed(path: &str, content: &str) {
    if std::fs::read_to_string(path).map(|c| c == content).unwrap_or(false) {
        return;
    }
    let _ = std::fs::write(path, content);
}

/// Compile and run the given case modules. `cases`: (id, module source).
pub fn run_batch(work_id: &str, cases: &[(usize, String)]) -> Result<Batch, String> {
    let root = verif_dir();
    let dir = format!("{}/work/{}", root, work_id);
    let src = format!("{}/src", dir);
    let casedir = format!("{}/cases", src);
    let _ = std::fs::remove_dir_all(&casedir);
    std::fs::create_dir_all(&casedir).map_err(|e| format!("mkdir {}: {}", casedir, e))?;
    std::fs::create_dir_all(format!("{}/.cargo", dir)).map_err(|e| e.to_string())?;
    let pkg = format!("pvsurface-{}", work_id.to_lowercase());
    write_if_changed(&format!("{}/Cargo.toml", dir), &template_cargo(&pkg, &format!("{}/harness", root), "/repo"));
    write_if_changed(
        &format!("{}/.cargo/config.toml", dir),
        "[net]\noffline = true\n\n[build]\nrustflags = [\"--cfg\", \"terohuttunen_proto_vulcan_verif\"]\ntarget-dir = \"../../target\"\n",
    );
    let lock_src = format!("{}/harness/Cargo.lock", root);
    if let Ok(l) = std::fs::read_to_string(&lock_src) {
        // same versions as the harness; cargo adds the new root package itself
        let _ = std::fs::write(format!("{}/Cargo.lock", dir), l);
    }
    let mut active: Vec<usize> = cases.iter().map(|(i, _)| *i).collect();
    for (i, s) in cases {
        std::fs::write(format!("{}/c{}.rs", casedir, i), s).map_err(|e| e.to_string())?;
    }
    let mut uncompilable = BTreeMap::new();
    let t0 = std::time::Instant::now();
    let mut attempts = 0;
    loop {
        attempts += 1;
        // mod.rs + main.rs for the active set
        let mut m = String::new();
        for i in &active {
            m.push_str(&format!("pub mod c{};\n", i));
        }
        m.push_str("\npub fn all() -> Vec<(usize, fn() -> pvh::pipeline::CaseOut)> {\n    vec![\n");
        for i in &active {
            m.push_str(&format!("        ({}, c{}::run as fn() -> pvh::pipeline::CaseOut),\n", i, i));
        }
        m.push_str("    ]\n}\n");
        std::fs::write(format!("{}/mod.rs", casedir), m).map_err(|e| e.to_string())?;
        std::fs::write(format!("{}/main.rs", src), "mod cases;\n\nfn main() {\n    pvh::pipeline::main_of_generated(cases::all());\n}\n").map_err(|e| e.to_string())?;
        let out = Command::new("cargo")
            .arg("build")
            .arg("--offline")
            .arg("--message-format=short")
            .current_dir(&dir)
            .env("CARGO_NET_OFFLINE", "true")
            .env("CARGO_TERM_COLOR", "never")
            .output()
            .map_err(|e| format!("cannot run cargo: {}", e))?;
        if out.status.success() {
            break;
        }
        let err = String::from_utf8_lossy(&out.stderr).to_string();
        // which case files have errors?
        let mut bad: BTreeMap<usize, String> = BTreeMap::new();
        for line in err.lines() {
            if let Some(pos) = line.find("src/cases/c") {
                let rest = &line[pos + "src/cases/c".len()..];
                let num: String = rest.chars().take_while(|c| c.is_ascii_digit()).collect();
                if let Ok(n) = num.parse::<usize>() {
                    if line.contains("error") {
                        bad.entry(n).or_insert_with(|| line.to_string());
                    }
                }
            }
        }
        if bad.is_empty() || attempts > 6 {
            let tail: Vec<&str> = err.lines().rev().take(30).collect();
            return Err(format!("generated crate does not build and no case file is to blame:\n{}", tail.into_iter().rev().collect::<Vec<_>>().join("\n")));
        }
        for (n, l) in bad {
            active.retain(|x| *x != n);
            uncompilable.insert(n, l);
        }
    }
    let build_secs = t0.elapsed().as_secs_f64();
    let exe = format!("{}/target/debug/{}", root, pkg);
    let out = Command::new(&exe).output().map_err(|e| format!("cannot run {}: {}", exe, e))?;
    let text = String::from_utf8_lossy(&out.stdout).to_string();
    let mut results = BTreeMap::new();
    for line in text.lines() {
        if let Some(rest) = line.strip_prefix("CASE ") {
            if let Some((id, js)) = rest.split_once(' ') {
                if let (Ok(id), Ok(co)) = (id.parse::<usize>(), parse_case_out(js)) {
                    results.insert(id, co);
                }
            }
        }
    }
    if results.len() != active.len() {
        return Err(format!("generated binary reported {} of {} cases (exit {:?}); stderr tail: {}", results.len(), active.len(), out.status.code(), String::from_utf8_lossy(&out.stderr).lines().rev().take(5).collect::<Vec<_>>().join(" | ")));
    }
    Ok(Batch { dir, uncompilable, results, build_secs })
}


/// Answers may hold long lists (nested `Cons` objects): serde_json's default recursion limit of
/// 128 is too low for them.
fn parse_case_out(js: &str) -> Result<CaseOut, serde_json::Error> {
    use serde::Deserialize;
    let mut de = serde_json::Deserializer::from_str(js);
    de.disable_recursion_limit();
    CaseOut::deserialize(&mut de)
}
