//! Choice source: the only entry point of randomness for every generator.
//!
//! A generator reads bounded choices from a byte string. A zero byte always selects the
//! first ("simplest") alternative and an exhausted source yields zeros, so shorter / smaller
//! byte strings decode to simpler cases; this is what makes proptest's byte-level shrinking
//! (delete bytes, lower bytes) meaningful for structured cases. All mappings are monotone
//! in the byte value.

pub struct Source<'a> {
    data: &'a [u8],
    pos: usize,
}

impl<'a> Source<'a> {
    pub fn new(data: &'a [u8]) -> Source<'a> {
        Source { data, pos: 0 }
    }

    #[inline]
    pub fn byte(&mut self) -> u8 {
        let b = self.data.get(self.pos).copied().unwrap_or(0);
        self.pos += 1;
        b
    }

    pub fn consumed(&self) -> usize {
        self.pos.min(self.data.len())
    }

    pub fn exhausted(&self) -> bool {
        self.pos >= self.data.len()
    }

    /// Uniform-ish choice in `0..n` (n ≥ 1), monotone in the byte; 0 for a zero byte.
    #[inline]
    pub fn below(&mut self, n: usize) -> usize {
        debug_assert!(n >= 1);
        if n <= 1 {
            // still consume nothing: a forced choice costs no entropy
            return 0;
        }
        if n <= 256 {
            (self.byte() as usize * n) >> 8
        } else {
            let hi = self.byte() as usize;
            let lo = self.byte() as usize;
            (((hi << 8) | lo) * n) >> 16
        }
    }

    /// Integer in `lo..=hi`, `lo` for a zero byte.
    #[inline]
    pub fn range(&mut self, lo: i64, hi: i64) -> i64 {
        debug_assert!(lo <= hi);
        lo + self.below((hi - lo + 1) as usize) as i64
    }

    /// True with probability `p`/256; false for a zero byte.
    #[inline]
    pub fn flag(&mut self, p: u32) -> bool {
        (self.byte() as u32) + p >= 256
    }

    /// Weighted choice; index 0 is the simplest alternative.
    pub fn weighted(&mut self, weights: &[u32]) -> usize {
        let total: u32 = weights.iter().sum();
        debug_assert!(total > 0);
        let v = if total <= 256 {
            (self.byte() as u32 * total) >> 8
        } else {
            let hi = self.byte() as u32;
            let lo = self.byte() as u32;
            (((hi << 8) | lo) as u64 * total as u64 >> 16) as u32
        };
        let mut acc = 0;
        for (i, w) in weights.iter().enumerate() {
            acc += *w;
            if v < acc {
                return i;
            }
        }
        weights.len() - 1
    }

    /// Small signed integer with |n| ≤ maxabs; 0 for a zero byte (order 0,1,-1,2,-2,…).
    pub fn small_int(&mut self, maxabs: i64) -> i64 {
        let k = self.below((2 * maxabs + 1) as usize) as i64;
        if k % 2 == 1 {
            (k + 1) / 2
        } else {
            -(k / 2)
        }
    }

    pub fn pick<'b, T>(&mut self, items: &'b [T]) -> &'b T {
        &items[self.below(items.len())]
    }

    /// A permutation of 0..n driven by the source (identity for zero bytes). Short permutations
    /// take one choice per position; long ones (n > 24) would exhaust the byte string, so they
    /// are expanded from a 32-bit seed read from the source (seed 0 = identity) - still a pure
    /// function of the bytes.
    pub fn permutation(&mut self, n: usize) -> Vec<usize> {
        let mut v: Vec<usize> = (0..n).collect();
        if n > 24 {
            let seed = ((self.byte() as u64) << 24) | ((self.byte() as u64) << 16) | ((self.byte() as u64) << 8) | self.byte() as u64;
            if seed == 0 {
                return v;
            }
            let mut x = splitmix(seed);
            for i in 0..n - 1 {
                x = splitmix(x);
                let j = i + (x % (n - i) as u64) as usize;
                v.swap(i, j);
            }
            return v;
        }
        // Fisher-Yates from the front; zero choices keep the identity
        for i in 0..n.saturating_sub(1) {
            let j = i + self.below(n - i);
            v.swap(i, j);
        }
        v
    }
}

pub fn splitmix(mut x: u64) -> u64 {
    x = x.wrapping_add(0x9E3779B97F4A7C15);
    let mut z = x;
    z = (z ^ (z >> 30)).wrapping_mul(0xBF58476D1CE4E5B9);
    z = (z ^ (z >> 27)).wrapping_mul(0x94D049BB133111EB);
    z ^ (z >> 31)
}

pub fn hash_str(s: &str) -> u64 {
    // FNV-1a, stable across runs and platforms
    let mut h: u64 = 0xcbf29ce484222325;
    for b in s.as_bytes() {
        h ^= *b as u64;
        h = h.wrapping_mul(0x100000001b3);
    }
    h
}

pub fn hex(bytes: &[u8]) -> String {
    let mut s = String::with_capacity(bytes.len() * 2);
    for b in bytes {
        s.push_str(&format!("{:02x}", b));
    }
    s
}

pub fn unhex(s: &str) -> Vec<u8> {
    let s = s.trim();
    (0..s.len() / 2)
        .map(|i| u8::from_str_radix(&s[2 * i..2 * i + 2], 16).unwrap_or(0))
        .collect()
}
