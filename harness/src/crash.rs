//! Last line of defence for faults that `catch_unwind` cannot see.
//!
//! * A stack overflow or abort inside the code under test (for instance unbounded recursion on a
//!   cyclic substitution after a broken occurs check) kills the process. Every worker publishes
//!   the bytes of the case it is evaluating in a pre-allocated slot; a SIGSEGV / SIGBUS / SIGABRT
//!   handler running on the alternate signal stack writes those bytes as a replay file, prints
//!   the VIOLATION line and exits with status 1. The handler only uses async-signal-safe calls
//!   (open, write, close, _exit) on pre-formatted buffers.
//! * A case that does not return (a loop that takes no engine steps, e.g. `walk` on a cyclic
//!   variable chain) is ended by a watchdog thread after WATCHDOG_SECS (generous: on a loaded machine a legitimate
//!   large case of a scale family may take a minute): the case is saved and the
//!   process exits with status 2 ("inconclusive"), never as a violation.

use std::sync::atomic::{AtomicBool, AtomicU64, AtomicUsize, Ordering};

const NSLOTS: usize = 64;
const MAXB: usize = 2048;
pub const WATCHDOG_SECS: u64 = 900;
/// the thorough tier's scale cases are five times larger
pub const WATCHDOG_SECS_THOROUGH: u64 = 1800;

struct Slot {
    busy: AtomicBool,
    len: AtomicUsize,
    started_ms: AtomicU64,
    /// hex of the case bytes, written by the owning worker only
    hex: std::cell::UnsafeCell<[u8; 2 * MAXB]>,
    family: std::cell::UnsafeCell<[u8; 64]>,
    family_len: AtomicUsize,
}

unsafe impl Sync for Slot {}

#[allow(clippy::declare_interior_mutable_const)]
const EMPTY: Slot = Slot {
    busy: AtomicBool::new(false),
    len: AtomicUsize::new(0),
    started_ms: AtomicU64::new(0),
    hex: std::cell::UnsafeCell::new([0; 2 * MAXB]),
    family: std::cell::UnsafeCell::new([0; 64]),
    family_len: AtomicUsize::new(0),
};

static SLOTS: [Slot; NSLOTS] = [EMPTY; NSLOTS];
static NEXT_SLOT: AtomicUsize = AtomicUsize::new(0);
static PROP: std::sync::OnceLock<String> = std::sync::OnceLock::new();
static DIR: std::sync::OnceLock<String> = std::sync::OnceLock::new();
static TIER: std::sync::OnceLock<String> = std::sync::OnceLock::new();
static START: std::sync::OnceLock<std::time::Instant> = std::sync::OnceLock::new();

thread_local! {
    static MY_SLOT: std::cell::Cell<usize> = std::cell::Cell::new(usize::MAX);
}

fn now_ms() -> u64 {
    START.get().map(|s| s.elapsed().as_millis() as u64).unwrap_or(0)
}

/// Called by a worker before it evaluates a case.
pub fn enter(family: &str, bytes: &[u8]) {
    let idx = MY_SLOT.with(|c| {
        if c.get() == usize::MAX {
            c.set(NEXT_SLOT.fetch_add(1, Ordering::SeqCst) % NSLOTS);
        }
        c.get()
    });
    let s = &SLOTS[idx];
    let n = bytes.len().min(MAXB);
    unsafe {
        let h = &mut *s.hex.get();
        const D: &[u8; 16] = b"0123456789abcdef";
        for (i, b) in bytes[..n].iter().enumerate() {
            h[2 * i] = D[(b >> 4) as usize];
            h[2 * i + 1] = D[(b & 15) as usize];
        }
        let f = &mut *s.family.get();
        let fl = family.len().min(64);
        f[..fl].copy_from_slice(&family.as_bytes()[..fl]);
        s.family_len.store(fl, Ordering::SeqCst);
    }
    s.len.store(n, Ordering::SeqCst);
    s.started_ms.store(now_ms(), Ordering::SeqCst);
    s.busy.store(true, Ordering::SeqCst);
}

pub fn leave() {
    let idx = MY_SLOT.with(|c| c.get());
    if idx != usize::MAX {
        SLOTS[idx].busy.store(false, Ordering::SeqCst);
    }
}

unsafe fn wr(fd: i32, b: &[u8]) {
    let _ = libc::write(fd, b.as_ptr() as *const libc::c_void, b.len());
}

/// Save the case of slot `idx` as a replay file; returns the path bytes written to `path`.
unsafe fn save(idx: usize, signature: &[u8], path: &mut [u8; 512]) -> usize {
    let prop = PROP.get().map(|s| s.as_bytes()).unwrap_or(b"C00");
    let dir = DIR.get().map(|s| s.as_bytes()).unwrap_or(b"/verif");
    // <dir>/replays/<prop>/crash-<idx>.json
    let mut n = 0;
    for part in [dir, b"/replays/", prop, b"/crash-"] {
        path[n..n + part.len()].copy_from_slice(part);
        n += part.len();
    }
    path[n] = b'0' + (idx / 10) as u8;
    path[n + 1] = b'0' + (idx % 10) as u8;
    n += 2;
    for b in b".json" {
        path[n] = *b;
        n += 1;
    }
    path[n] = 0;
    let fd = libc::open(path.as_ptr() as *const libc::c_char, libc::O_WRONLY | libc::O_CREAT | libc::O_TRUNC, 0o644);
    if fd >= 0 {
        let s = &SLOTS[idx];
        wr(fd, b"{\"property\": \"");
        wr(fd, prop);
        wr(fd, b"\", \"tier\": \"");
        wr(fd, TIER.get().map(|s| s.as_bytes()).unwrap_or(b"quick"));
        wr(fd, b"\", \"family\": \"");
        wr(fd, &(&*s.family.get())[..s.family_len.load(Ordering::SeqCst)]);
        wr(fd, b"\", \"bytes\": \"");
        wr(fd, &(&*s.hex.get())[..2 * s.len.load(Ordering::SeqCst)]);
        wr(fd, b"\", \"signature\": \"");
        wr(fd, signature);
        wr(fd, b"\", \"detail\": \"the process was killed while this case was being evaluated; replay it to reproduce\"}\n");
        libc::close(fd);
    }
    n
}

extern "C" fn on_fatal(sig: i32, _info: *mut libc::siginfo_t, _ctx: *mut libc::c_void) {
    unsafe {
        let idx = MY_SLOT.with(|c| c.get());
        let prop = PROP.get().map(|s| s.as_bytes()).unwrap_or(b"C00");
        if idx != usize::MAX && SLOTS[idx].busy.load(Ordering::SeqCst) {
            let mut path = [0u8; 512];
            let sigtxt: &[u8] = if sig == libc::SIGABRT { b"fatal:abort-while-evaluating-case" } else { b"fatal:stack-overflow-or-segfault-while-evaluating-case" };
            let n = save(idx, sigtxt, &mut path);
            wr(2, b"--- violation [");
            wr(2, sigtxt);
            wr(2, b"] the code under test brought the process down (stack overflow / abort) ---\n");
            wr(1, b"VIOLATION property=");
            wr(1, prop);
            wr(1, b" replay=");
            wr(1, &path[..n]);
            wr(1, b"\n");
            libc::_exit(1);
        }
        wr(2, b"INFRA: fatal signal outside a case\n");
        libc::_exit(2);
    }
}

/// Install the handlers and start the watchdog. `prop` is the property being checked.
pub fn install(prop: &str, verif_dir: &str, tier: &str) {
    let _ = PROP.set(prop.to_string());
    let _ = TIER.set(tier.to_string());
    let _ = DIR.set(verif_dir.to_string());
    let _ = START.set(std::time::Instant::now());
    let _ = std::fs::create_dir_all(format!("{}/replays/{}", verif_dir, prop));
    unsafe {
        let mut sa: libc::sigaction = std::mem::zeroed();
        sa.sa_sigaction = on_fatal as usize;
        sa.sa_flags = libc::SA_SIGINFO | libc::SA_ONSTACK;
        libc::sigemptyset(&mut sa.sa_mask);
        libc::sigaction(libc::SIGSEGV, &sa, std::ptr::null_mut());
        libc::sigaction(libc::SIGBUS, &sa, std::ptr::null_mut());
        libc::sigaction(libc::SIGABRT, &sa, std::ptr::null_mut());
    }
    std::thread::Builder::new()
        .name("watchdog".into())
        .spawn(|| loop {
            std::thread::sleep(std::time::Duration::from_secs(1));
            let now = now_ms();
            let limit_secs = if TIER.get().map(|t| t == "thorough").unwrap_or(false) { WATCHDOG_SECS_THOROUGH } else { WATCHDOG_SECS };
            for (i, s) in SLOTS.iter().enumerate() {
                if s.busy.load(Ordering::SeqCst) && now.saturating_sub(s.started_ms.load(Ordering::SeqCst)) > limit_secs * 1000 {
                    unsafe {
                        let mut path = [0u8; 512];
                        let n = save(i, b"watchdog:case-did-not-finish", &mut path);
                        eprintln!(
                            "INFRA: watchdog: a case did not finish within {} s (inconclusive, not a violation); saved as {}",
                            limit_secs,
                            String::from_utf8_lossy(&path[..n])
                        );
                        libc::_exit(2);
                    }
                }
            }
        })
        .ok();
}
