//! Shared driver of the compile-pipeline properties (C13, C14, C15).

use crate::ast::Program;
use crate::canon;
use crate::emit::{case_module, Names};
use crate::framework::*;
use crate::model::interp;
use crate::oracle::{self, RefResult};
use crate::pipeline::{run_batch, CaseOut};
use crate::run::{self, Answer, Limits, Mode};
use crate::source::{hash_str, splitmix, Source};
use serde_json::json;

pub const LIMIT: usize = 60;
pub const BUDGET: u64 = 300_000;

pub struct SurfaceFamily {
    pub prop: &'static str,
    pub name: &'static str,
    pub max_len: usize,
    pub quick: usize,
    pub thorough: usize,
    pub decode: fn(&mut Source) -> (Program, Names, Vec<&'static str>),
    /// emitted variants of one case (C15: shadowing names and globally unique names)
    pub variants: fn(&Names) -> Vec<Names>,
    pub nontrivial: fn(&Program, &[&'static str]) -> bool,
}

pub fn one_variant(n: &Names) -> Vec<Names> {
    vec![n.clone()]
}

fn display_ok(p: &Program, names: &Names, disp: &str) -> bool {
    let mut pos = 0;
    for i in 0..p.nq {
        let key = if i == 0 { format!("{}: ", names.name(i as u32, p.nq)) } else { format!("\n{}: ", names.name(i as u32, p.nq)) };
        match disp[pos..].find(&key) {
            Some(k) => {
                if i == 0 && k != 0 {
                    return false;
                }
                pos += k + key.len();
            }
            None => return false,
        }
    }
    true
}

pub fn judge(fam: &SurfaceFamily, p: &Program, names: &[Names], kinds: &[&'static str], outs: &[&CaseOut], ctx: &Ctx) -> CaseInfo {
    let mut info = CaseInfo::default();
    let e_src: Vec<String> = names.iter().map(|n| crate::emit::Emitter::new(n, p.nq).query(p)).collect();
    let desc = e_src[0].clone();
    info.key = hash_str(&desc);
    for k in kinds {
        info.class(k);
    }
    info.nontrivial = (fam.nontrivial)(p, kinds);
    let first = outs[0];
    if ctx.want_sample {
        info.sample = Some(json!({ "surface_program": desc, "other_emissions": e_src[1..], "answers": run::show_answers(&first.answers), "end": first.end }));
    }
    for (o, src) in outs.iter().zip(e_src.iter()) {
        if o.end.starts_with("panic") {
            info.fail(format!("{}:panic:{}", fam.prop, o.end.chars().take(70).collect::<String>()), format!("{}\n  {}", src, o.end));
            return info;
        }
    }
    let finite = outs.iter().all(|o| o.end == "exhausted");
    let u = canon::universe(&[p], &[], canon::count_diseqs(p) + 2, 9);
    // every emission against the reference interpreter
    match oracle::reference_answers(p) {
        RefResult::Answers(reference) if finite => {
            for (o, src) in outs.iter().zip(e_src.iter()) {
                match canon::multiset_cmp(&o.answers, &reference, &u) {
                    Ok(None) => {}
                    Err(()) => return CaseInfo { skip: Some("too-big"), ..info },
                    Ok(Some(d)) => {
                        info.fail(
                            format!("{}:compiled-program-differs-from-reference", fam.prop),
                            format!("{}\n  compiled answers: {}\n  reference (AST semantics: {}): {}\n  only compiled: {}\n  only reference: {}", src, run::show_answers(&o.answers), p.show(), run::show_answers(&reference), run::show_answers(&d.only_left), run::show_answers(&d.only_right)),
                        );
                        return info;
                    }
                }
            }
        }
        RefResult::Answers(_) => return CaseInfo { skip: Some("compiled-run-incomplete"), ..info },
        RefResult::Skip("ref-infinite") => {
            // infinite programs: every ground instance of the first answers must be a solution
            info.class("infinite-prefix");
            for o in outs {
                for a in o.answers.iter().take(10) {
                    if canon::term_var_count(a) == 0 && a.cons.is_empty() {
                        if let Ok(false) = interp::holds(p, &a.terms, 500) {
                            info.fail(format!("{}:invented-answer", fam.prop), format!("{}\n  answer {} is not a solution", desc, run::show_answer(a)));
                            return info;
                        }
                    }
                }
            }
        }
        RefResult::Skip(w) => return CaseInfo { skip: Some(w), ..info },
    }
    // emissions against each other (C15: shadowed vs alpha-renamed)
    if finite {
        for (o, src) in outs.iter().zip(e_src.iter()).skip(1) {
            if let Ok(Some(_)) = canon::multiset_cmp(&first.answers, &o.answers, &u) {
                info.fail(format!("{}:renaming-changes-answers", fam.prop), format!("{}\n  answers {}\n  renamed: {}\n  answers {}", desc, run::show_answers(&first.answers), src, run::show_answers(&o.answers)));
                return info;
            }
        }
    }
    // secondary differential: the dynamic build of the same AST (guards the harness's builder)
    if finite {
        let dynamic = run::run(p, Mode::Bfs, Limits { max_answers: LIMIT, budget: BUDGET });
        if dynamic.complete() {
            if let Ok(Some(_)) = canon::multiset_cmp(&first.answers, &dynamic.answers, &u) {
                info.fail(
                    format!("{}:compiled-differs-from-dynamic-build", fam.prop),
                    format!("{}\n  compiled answers: {}\n  dynamic build of the same AST: {}", desc, run::show_answers(&first.answers), run::show_answers(&dynamic.answers)),
                );
                return info;
            }
        }
    }
    // Display: `name: value` per query variable in declaration order
    for (o, n) in outs.iter().zip(names.iter()) {
        for d in &o.displays {
            if !display_ok(p, n, d) {
                info.fail(format!("{}:display-order", fam.prop), format!("{}\n  Display of a result does not list the query variables in declaration order:\n{}", desc, d));
                return info;
            }
        }
    }
    info
}

struct Prepared {
    bytes: Vec<u8>,
    program: Program,
    names: Vec<Names>,
    kinds: Vec<&'static str>,
    first_id: usize,
}

fn prepare(fam: &SurfaceFamily, bytes_list: Vec<Vec<u8>>) -> (Vec<Prepared>, Vec<(usize, String)>) {
    let mut prepared = vec![];
    let mut modules = vec![];
    let mut next_id = 0;
    for bytes in bytes_list {
        let mut s = Source::new(&bytes);
        let (program, names, kinds) = (fam.decode)(&mut s);
        let variants = (fam.variants)(&names);
        let first_id = next_id;
        for v in &variants {
            modules.push((next_id, case_module(&program, v, LIMIT, BUDGET)));
            next_id += 1;
        }
        prepared.push(Prepared { bytes, program, names: variants, kinds, first_id });
    }
    (prepared, modules)
}

fn evaluate(fam: &SurfaceFamily, work: &str, bytes_list: Vec<Vec<u8>>, ctx_for: &dyn Fn(usize) -> Ctx) -> Result<(Vec<(Vec<u8>, CaseInfo)>, usize), String> {
    let (prepared, modules) = prepare(fam, bytes_list);
    let batch = run_batch(work, &modules)?;
    let mut out = vec![];
    let mut uncompilable = 0;
    for (i, pc) in prepared.iter().enumerate() {
        let ids: Vec<usize> = (pc.first_id..pc.first_id + pc.names.len()).collect();
        if let Some(bad) = ids.iter().find(|id| batch.uncompilable.contains_key(id)) {
            uncompilable += 1;
            if uncompilable <= 3 {
                let msg: String = batch.uncompilable[bad].chars().take(300).collect();
                eprintln!("note: generated case does not compile ({}): {}", msg, crate::emit::Emitter::new(&pc.names[0], pc.program.nq).query(&pc.program));
            }
            // the emissions that did compile are still judged (against the reference)
            let ok: Vec<usize> = (0..ids.len()).filter(|k| !batch.uncompilable.contains_key(&ids[*k]) && batch.results.contains_key(&ids[*k])).collect();
            if ok.is_empty() {
                let mut info = CaseInfo::skip("uncompilable");
                info.sample = Some(json!({ "uncompilable": batch.uncompilable[bad], "program": pc.program.show() }));
                out.push((pc.bytes.clone(), info));
                continue;
            }
            let outs: Vec<&CaseOut> = ok.iter().map(|k| &batch.results[&ids[*k]]).collect();
            let names: Vec<crate::emit::Names> = ok.iter().map(|k| pc.names[*k].clone()).collect();
            let ctx = ctx_for(i);
            let mut info = judge(fam, &pc.program, &names, &pc.kinds, &outs, &ctx);
            info.class("some-emission-uncompilable");
            out.push((pc.bytes.clone(), info));
            continue;
        }
        let outs: Vec<&CaseOut> = ids.iter().filter_map(|id| batch.results.get(id)).collect();
        if outs.len() != ids.len() {
            out.push((pc.bytes.clone(), CaseInfo::skip("no-result")));
            continue;
        }
        let ctx = ctx_for(i);
        out.push((pc.bytes.clone(), judge(fam, &pc.program, &pc.names, &pc.kinds, &outs, &ctx)));
    }
    Ok((out, uncompilable))
}

/// Batch-wise shrinking on the byte string: prefixes and single-byte zeroing, one compile per round.
fn shrink(fam: &SurfaceFamily, work: &str, bytes: &[u8], signature: &str, tier: Tier) -> Vec<u8> {
    let mut best = bytes.to_vec();
    for _round in 0..3 {
        let mut cands: Vec<Vec<u8>> = vec![];
        for k in 1..12 {
            let cut = best.len() * k / 12;
            if cut < best.len() {
                cands.push(best[..cut].to_vec());
            }
        }
        let step = (best.len() / 40).max(1);
        let mut i = 0;
        while i < best.len() && cands.len() < 60 {
            if best[i] != 0 {
                let mut c = best.clone();
                c[i] = 0;
                cands.push(c);
            }
            i += step;
        }
        cands.dedup();
        let ctx = Ctx { tier, strict: false, want_sample: false };
        let res = match evaluate(fam, work, cands, &|_| ctx) {
            Ok((r, _)) => r,
            Err(_) => return best,
        };
        let mut improved = false;
        for (b, info) in res {
            if info.failure.as_ref().map(|f| f.signature == signature).unwrap_or(false) && (b.len() < best.len() || b.iter().map(|x| *x as u64).sum::<u64>() < best.iter().map(|x| *x as u64).sum::<u64>()) {
                best = b;
                improved = true;
                break;
            }
        }
        if !improved {
            break;
        }
    }
    best
}

pub fn drive(fam: &SurfaceFamily, tier: Tier, seed: u64, stats: &mut Stats) -> Result<(), String> {
    let total = match tier {
        Tier::Quick => fam.quick,
        Tier::Thorough => fam.thorough,
    };
    let total = std::env::var("PVH_CASES").ok().and_then(|s| s.parse::<usize>().ok()).unwrap_or(total);
    // one generated crate per property, family and tier (a quick and a thorough run of the same
    // property may be started side by side)
    let work = format!("{}-{}-{}", fam.prop, fam.name, tier.name());
    let chunk = 450;
    let mut done = 0;
    let mut uncompilable = 0;
    let mut round = 0u64;
    let mut first_failure: Option<(Vec<u8>, Failure)> = None;
    while done < total {
        let n = chunk.min(total - done);
        let bytes = sample_bytes(splitmix(seed ^ hash_str(fam.prop) ^ hash_str(fam.name).rotate_left(9) ^ round), fam.max_len, n);
        let want = stats.samples.len();
        let (res, unc) = evaluate(fam, &work, bytes, &|i| Ctx { tier, strict: false, want_sample: want < 8 && i < 40 })?;
        uncompilable += unc;
        for (b, info) in res {
            stats.record(&info);
            if let Some(f) = info.failure {
                if first_failure.is_none() {
                    first_failure = Some((b, f));
                }
            }
        }
        done += n;
        round += 1;
        if first_failure.is_some() {
            break;
        }
    }
    if let Some((bytes, f)) = first_failure {
        let small = shrink(fam, &work, &bytes, &f.signature, tier);
        // re-evaluate the shrunk input for the report
        let ctx = Ctx { tier, strict: false, want_sample: true };
        let failure = match evaluate(fam, &work, vec![small.clone()], &|_| ctx) {
            Ok((mut r, _)) => r.pop().and_then(|(_, i)| i.failure).unwrap_or(f),
            Err(_) => f,
        };
        stats.failures.push((fam.name.to_string(), failure, Some(small)));
    }
    if done > 0 && uncompilable * 50 > done {
        return Err(format!("{} of {} generated programs did not compile (>2%): generator problem", uncompilable, done));
    }
    Ok(())
}

pub fn replay_one(fam: &SurfaceFamily, bytes: &[u8], ctx: &Ctx) -> Result<CaseInfo, String> {
    let work = format!("{}-{}-replay", fam.prop, fam.name);
    let c = *ctx;
    let (mut r, _) = evaluate(fam, &work, vec![bytes.to_vec()], &|_| c)?;
    r.pop().map(|(_, i)| i).ok_or_else(|| "no result".to_string())
}

pub fn answers_only(a: &[Answer]) -> String {
    run::show_answers(a)
}
