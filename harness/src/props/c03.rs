//! C03 — answers are fully reified, closed and carry their relevant constraints.

use crate::ast::{Goal, Kind, Program, Term};
use crate::canon;
use crate::framework::*;
use crate::gen::tree::{gen_program, TreeCfg};
use crate::oracle::{self, RefResult, Verdict};
use crate::run::{self, Mode};
use crate::source::{hash_str, Source};
use serde_json::json;

pub fn eval(p: &Program, ctx: &Ctx) -> CaseInfo {
    let mut info = CaseInfo::default();
    let desc = p.show();
    info.key = hash_str(&desc);
    let out = oracle::run_all(p, Mode::Bfs);
    if ctx.want_sample {
        info.sample = Some(json!({ "program": desc, "answers": run::show_answers(&out.answers),
            "constraints_reported_per_query_var": out.meta.iter().map(|m| m.reported.iter().map(|r| r.0).collect::<Vec<_>>()).collect::<Vec<_>>() }));
    }
    if let Some((why, pi)) = oracle::describe_end(&out) {
        if let Some(pi) = pi {
            info.fail(format!("C03:panic:{}", pi.key()), format!("{}\n  panicked: {} at {}", desc, pi.message, pi.location));
            return info;
        }
        return CaseInfo { skip: Some(why), ..info };
    }
    let any_var = out.answers.iter().any(|a| canon::term_var_count(a) > 0);
    let any_con = out.answers.iter().any(|a| !a.cons.is_empty());
    info.nontrivial = any_var && any_con;
    for (a, m) in out.answers.iter().zip(out.meta.iter()) {
        if a.terms.iter().any(|t| t.has_compound()) && canon::term_var_count(a) > 0 {
            info.class("variable-inside-compound-or-answer-with-compound");
        }
        if p.nq > 1 {
            let mut seen = vec![];
            let mut shared = false;
            for t in &a.terms {
                let mut v = vec![];
                t.vars(&mut v);
                if v.iter().any(|x| seen.contains(x)) {
                    shared = true;
                }
                seen.extend(v);
            }
            if shared {
                info.class("variable-shared-across-query-vars");
            }
        }
        // (1) only reified `_` variables
        if !m.non_any.is_empty() {
            info.fail("C03:non-reified-variable-in-answer", format!("{}\n  answer {} contains non-`_` variables {:?}", desc, run::show_answer(a), m.non_any));
            return info;
        }
        // (3) constraints mention only reified variables of this answer
        if m.hidden_vars > 0 {
            info.fail(
                "C03:constraint-mentions-variable-not-in-answer",
                format!("{}\n  answer {}: a reported constraint mentions {} variable(s) that occur in no answer term", desc, run::show_answer(a), m.hidden_vars),
            );
            return info;
        }
        // (4) LResult::constraints() = every constraint on a reified variable occurring in the term
        for (i, ((n, isc), exp)) in m.reported.iter().zip(m.expected_reported.iter()).enumerate() {
            if *n != *exp || *isc != (*exp > 0) {
                info.fail(
                    "C03:relevant-constraints-not-reported",
                    format!(
                        "{}\n  answer {}: query variable {}: constraints() returned {} (is_constrained={}), but {} reported constraint(s) mention a reified variable occurring in it",
                        desc,
                        run::show_answer(a),
                        i,
                        n,
                        isc,
                        exp
                    ),
                );
                return info;
            }
            if *exp > 0 {
                info.class("constraint-reported-for-query-var");
            }
        }
    }
    // (2) the tuple is isomorphic to the reference's (distinct unbound <-> distinct reified,
    // sharing preserved across query variables) and carries equivalent constraints
    let reference = match oracle::reference_answers(p) {
        RefResult::Answers(a) => a,
        RefResult::Skip(w) => return CaseInfo { skip: Some(w), ..info },
    };
    let u = canon::universe(&[p], &[], canon::count_diseqs(p) + 2, 9);
    match oracle::compare_with_reference("C03", p, &out, &reference, &u) {
        Verdict::Ok => {}
        Verdict::Skip(w) => return CaseInfo { skip: Some(w), ..info },
        Verdict::Fail(sig, detail) => info.fail(sig, detail),
    }
    info
}

fn cfg() -> TreeCfg {
    let mut c = TreeCfg::c02();
    c.nq_max = 3;
    c.kinds = vec![Kind::Pair, Kind::Rec, Kind::Tuple, Kind::Node];
    c.max_atoms = 5;
    c
}

fn run_family(bytes: &[u8], ctx: &Ctx) -> CaseInfo {
    let mut s = Source::new(bytes);
    let p = gen_program(&mut s, &cfg());
    eval(&p, ctx)
}

/// Answers whose terms and constraints are built by library relations (which use anonymous `_`
/// variables and fresh variables of their own internally): family S programs with disequalities.
fn run_relations(bytes: &[u8], ctx: &Ctx) -> CaseInfo {
    use crate::gen::search::{gen_program as gen_search, SearchCfg};
    let mut s = Source::new(bytes);
    let mut c = SearchCfg::dfs();
    c.nq_max = 3;
    let p = gen_search(&mut s, &c);
    let mut info = eval(&p, ctx);
    info.class("relations");
    info
}

/// Answers containing lists of hundreds of cells that were built cell by cell by a relation
/// (every tail a bound variable), next to disequalities on their elements.
fn run_scale(bytes: &[u8], ctx: &Ctx) -> CaseInfo {
    let mut s = Source::new(bytes);
    let thorough = ctx.tier == Tier::Thorough;
    let mut p = crate::gen::scale::search_program_opts(&mut s, thorough, 0, false);
    // a disequality or two on the query variables, before or after
    let nd = s.below(3);
    for _ in 0..nd {
        let v = Term::Var(s.below(2) as u32);
        let t = match s.below(3) {
            0 => Term::Int(s.range(0, 3)),
            1 => Term::list(vec![Term::Int(s.range(0, 2))]),
            _ => Term::Var(s.below(2) as u32),
        };
        let g = Goal::Diseq(v, t);
        if s.flag(128) {
            p.body.insert(0, g);
        } else {
            p.body.push(g);
        }
    }
    let mut info = eval(&p, ctx);
    truncate_sample(&mut info, 400);
    info.class("scale");
    info
}

fn fixed_nested(ctx: &Ctx) -> CaseInfo {
    // p == Pair(1, x), x != 3  (property text): p must be reported as constrained
    let p = Program {
        nq: 1,
        body: vec![Goal::Fresh(vec![1], vec![Goal::Eq(Term::Var(0), Term::Cmp(Kind::Pair, vec![Term::Int(1), Term::Var(1)])), Goal::Diseq(Term::Var(1), Term::Int(3))])],
    };
    eval(&p, ctx)
}

fn fixed_hidden(ctx: &Ctx) -> CaseInfo {
    // |y| { [q, y] != [5, 6] }: the constraint mentions the non-reified y
    let p = Program { nq: 1, body: vec![Goal::Fresh(vec![1], vec![Goal::Diseq(Term::list(vec![Term::Var(0), Term::Var(1)]), Term::ints(&[5, 6]))])] };
    eval(&p, ctx)
}

fn fixed_shared(ctx: &Ctx) -> CaseInfo {
    let p = Program {
        nq: 3,
        body: vec![Goal::Fresh(
            vec![3, 4],
            vec![
                Goal::Eq(Term::Var(0), Term::list(vec![Term::Var(3), Term::Var(4)])),
                Goal::Eq(Term::Var(1), Term::Cmp(Kind::Pair, vec![Term::Var(4), Term::Var(3)])),
                Goal::Diseq(Term::Var(3), Term::Var(4)),
                Goal::Diseq(Term::Var(2), Term::Int(1)),
            ],
        )],
    };
    eval(&p, ctx)
}

pub fn def() -> PropertyDef {
    PropertyDef {
        id: "C03",
        rule: "family T programs with 1-3 query variables sharing free variables, lists and compounds (Pair, Rec, tuple, Node). Per answer: only `_` variables occur; no reported constraint mentions a variable that occurs in no answer term; LResult::constraints()/is_constrained() per query variable equals (own traversal through lists and compounds, by identity of the reified variables) the set of reported constraints mentioning a reified variable of that term; the whole tuple with its constraints is equivalent to the reference interpreter's answer (distinctness and sharing of reified variables). Non-trivial = some answer has a reified variable and a constraint; distinct = hash of the printed program. Family `relations`: family S programs (library and harness relations, closures, disequalities; the relations use anonymous `_` and own fresh variables internally). Family `scale`: answers with lists of up to 150-400 cells built cell by cell by member / append / lenle / rember / nrev etc., plus disequalities on the query variables",
        assumptions: vec!["reference interpreter and unifier are correct"],
        families: vec![
            Family { name: "tree-compound", max_len: 160, quick: 120_000, thorough: 3_000_000, run: run_family },
            Family { name: "relations", max_len: 200, quick: 80_000, thorough: 2_000_000, run: run_relations },
            Family { name: "scale", max_len: 64, quick: 6_000, thorough: 60_000, run: run_scale },
        ],
        fixed: vec![
            Fixed { name: "constraint-on-variable-nested-in-compound", run: fixed_nested },
            Fixed { name: "constraint-on-hidden-variable", run: fixed_hidden },
            Fixed { name: "shared-variables-across-query-vars", run: fixed_shared },
        ],
        witnesses: vec![],
        exhaustive: None,
        exhaustive_in_quick: false,
        custom: None,
        custom_replay: None,
    }
}
