//! Programs with one large dimension, drawn from every scale generator; shared by the properties
//! whose oracle works on an arbitrary program (C04, C09, C22, C23).

use crate::ast::Program;
use crate::source::Source;

#[derive(Clone, Copy, PartialEq, Eq, Debug)]
pub enum ScaleKind {
    TermsAndChains,
    ManyDisequalities,
    Search,
    WideDomains,
}

impl ScaleKind {
    pub fn label(self) -> &'static str {
        match self {
            ScaleKind::TermsAndChains => "scale:terms-and-chains",
            ScaleKind::ManyDisequalities => "scale:many-disequalities",
            ScaleKind::Search => "scale:search",
            ScaleKind::WideDomains => "scale:wide-domains",
        }
    }
}

pub fn any_program(s: &mut Source, thorough: bool) -> (Program, ScaleKind) {
    any_program_opts(s, thorough, true)
}

/// `allow_chain = false` keeps programs whose search tree stays small under any goal order.
pub fn any_program_opts(s: &mut Source, thorough: bool, allow_chain: bool) -> (Program, ScaleKind) {
    match s.below(4) {
        0 => (crate::props::c01::scale_program(s, thorough), ScaleKind::TermsAndChains),
        1 => (crate::props::c02::decode_scale(s, thorough), ScaleKind::ManyDisequalities),
        2 => (crate::gen::scale::search_program_opts(s, thorough, 0, allow_chain), ScaleKind::Search),
        _ => (crate::gen::fd::gen_case_wide(s, thorough).program(), ScaleKind::WideDomains),
    }
}
