//! C12 — for/everyg is the conjunction of its body over the collection.

use crate::ast::{FdGoal, Goal, Program, Rel, Term, VarId};
use crate::canon;
use crate::framework::*;
use crate::model::interp::subst_goal;
use crate::oracle::{self, RefResult, Verdict};
use crate::run::{self, End, Limits, Mode};
use crate::source::{hash_str, Source};
use serde_json::json;

const LV: VarId = 9; // loop variable

#[derive(Clone, Debug)]
pub struct Case {
    pub before: Vec<Goal>,
    pub coll: Vec<Term>,
    pub body: Vec<Goal>,
    pub after: Vec<Goal>,
    pub fd: bool,
    /// the collection is a logic variable bound to the list, iterated below `project |l| { .. }`
    /// (known only when the goal is solved)
    pub via_project: bool,
}

fn decode(s: &mut Source) -> Case {
    let fd = s.flag(90);
    let q = |s: &mut Source| Term::Var(s.below(2) as VarId);
    let int = |s: &mut Source| Term::Int(s.range(0, 3));
    let n = s.below(5);
    let mut coll = vec![];
    for _ in 0..n {
        let e = if fd {
            if s.flag(200) { q(s) } else { int(s) }
        } else {
            match s.below(5) {
                0 => int(s),
                1 | 2 => q(s),
                3 => Term::list(vec![int(s), q(s)]),
                _ => Term::cons(q(s), q(s)),
            }
        };
        coll.push(e);
    }
    let x = Term::Var(LV);
    // collections whose elements are lists themselves (also the empty list): the body is then a
    // nested `for` over the element, or a domain posted on the element list
    if s.flag(40) {
        let n = 1 + s.below(4);
        let coll: Vec<Term> = (0..n)
            .map(|_| match s.below(4) {
                0 => Term::Nil,
                1 => Term::list(vec![q(s)]),
                2 => Term::list(vec![q(s), int(s)]),
                _ => Term::list(vec![int(s)]),
            })
            .collect();
        let body = if fd {
            let a = s.range(0, 2);
            vec![Goal::Fd(FdGoal::InFdRange(x.clone(), a, s.range(a, 4)))]
        } else {
            let y = Term::Var(LV + 2);
            let inner = match s.below(3) {
                0 => Goal::Eq(y.clone(), int(s)),
                1 => Goal::Diseq(y.clone(), int(s)),
                _ => Goal::Call(Rel::Member, vec![y.clone(), Term::list(vec![int(s), int(s)])]),
            };
            vec![Goal::ForIn(LV + 2, x.clone(), vec![inner])]
        };
        let mut before = vec![];
        if fd {
            before.push(Goal::Fd(FdGoal::InFdRange(Term::list(vec![Term::Var(0), Term::Var(1)]), 0, 4)));
        }
        return Case { before, coll, body, after: vec![], fd, via_project: false };
    }
    let nb = 1 + s.below(3);
    let mut body = vec![];
    for _ in 0..nb {
        let g = if fd {
            match s.below(4) {
                0 => {
                    let a = s.range(0, 2);
                    Goal::Fd(FdGoal::InFdRange(x.clone(), a, s.range(a, 4)))
                }
                1 => Goal::Fd(FdGoal::Lte(x.clone(), q(s))),
                2 => Goal::Fd(FdGoal::Diseq(x.clone(), int(s))),
                _ => Goal::Fd(FdGoal::Plus(x.clone(), int(s), q(s))),
            }
        } else {
            match s.below(8) {
                0 => Goal::Eq(x.clone(), int(s)),
                1 => Goal::Diseq(x.clone(), int(s)),
                2 => Goal::Call(Rel::Member, vec![x.clone(), Term::list(vec![int(s), int(s), q(s)])]),
                3 => Goal::Eq(x.clone(), Term::cons(q(s), Term::Var(LV + 1))),
                4 => Goal::Conde(vec![vec![Goal::Eq(x.clone(), int(s))], vec![Goal::Eq(x.clone(), q(s))]]),
                5 => Goal::Diseq(x.clone(), q(s)),
                // a choice on the body-local variable that the element does not decide: every
                // iteration must get its own variable and its own choice point
                6 => Goal::Call(Rel::Member, vec![Term::Var(LV + 1), Term::list(vec![int(s), int(s)])]),
                _ => Goal::Conde(vec![vec![Goal::Eq(Term::Var(LV + 1), int(s))], vec![Goal::Eq(Term::Var(LV + 1), x.clone())]]),
            }
        };
        body.push(g);
    }
    // a body-local fresh variable (must be new per element)
    if !fd && body.iter().any(|g| g.any(&|x| { let mut has = false; x.visit_terms(&mut |t| { let mut v = vec![]; t.vars(&mut v); if v.contains(&(LV + 1)) { has = true; } }); has })) {
        body = vec![Goal::Fresh(vec![LV + 1], body)];
    }
    let mut before = vec![];
    let mut after = vec![];
    if fd {
        before.push(Goal::Fd(FdGoal::InFdRange(Term::list(vec![Term::Var(0), Term::Var(1)]), 0, 4)));
    }
    if s.flag(80) {
        let g = if fd { Goal::Fd(FdGoal::Lt(Term::Var(0), Term::Var(1))) } else { Goal::Diseq(Term::Var(0), Term::Var(1)) };
        if s.flag(128) {
            before.push(g)
        } else {
            after.push(g)
        }
    }
    Case { before, coll, body, after, fd, via_project: false }
}

/// Long collections (up to 400, thorough 1000 elements); bodies that stay (nearly)
/// deterministic so that the answer count does not explode.
fn decode_long(s: &mut Source, thorough: bool) -> Case {
    use crate::gen::scale;
    let fd = s.flag(90);
    let n = scale::size(s, scale::cap(thorough));
    let q = |s: &mut Source| Term::Var(s.below(2) as VarId);
    let mut coll: Vec<Term> = (0..n).map(|i| Term::Int((i % 4) as i64)).collect();
    let deco = s.below(5);
    for _ in 0..deco {
        let pos = s.below(n);
        coll[pos] = if fd {
            q(s)
        } else {
            match s.below(4) {
                0 | 1 => q(s),
                2 => Term::list(vec![Term::Int(1), q(s)]),
                _ => Term::Int(9),
            }
        };
    }
    let x = Term::Var(LV);
    let nb = 1 + s.below(2);
    let mut body = vec![];
    for _ in 0..nb {
        let g = if fd {
            match s.below(3) {
                0 => Goal::Fd(FdGoal::Lte(x.clone(), Term::Int(s.range(3, 4)))),
                1 => Goal::Fd(FdGoal::Diseq(x.clone(), Term::Int(s.range(4, 6)))),
                _ => Goal::Fd(FdGoal::Lte(x.clone(), q(s))),
            }
        } else {
            match s.weighted(&[3, 2, 2, 1, 1]) {
                0 => Goal::Diseq(x.clone(), Term::Int(s.range(3, 9))),
                1 => Goal::Diseq(x.clone(), q(s)),
                2 => Goal::Eq(Term::Var(LV + 1), Term::list(vec![x.clone(), q(s)])),
                3 => Goal::Conde(vec![vec![Goal::Eq(x.clone(), Term::Int(s.range(0, 3)))], vec![Goal::Diseq(x.clone(), Term::Int(s.range(0, 3)))]]),
                _ => Goal::Eq(x.clone(), x.clone()),
            }
        };
        body.push(g);
    }
    if !fd && body.iter().any(|g| g.any(&|x| { let mut has = false; x.visit_terms(&mut |t| { let mut v = vec![]; t.vars(&mut v); if v.contains(&(LV + 1)) { has = true; } }); has })) {
        body = vec![Goal::Fresh(vec![LV + 1], body)];
    }
    let mut before = vec![];
    let mut after = vec![];
    if fd {
        before.push(Goal::Fd(FdGoal::InFdRange(Term::list(vec![Term::Var(0), Term::Var(1)]), 0, 4)));
    }
    if s.flag(80) {
        let g = if fd { Goal::Fd(FdGoal::Lt(Term::Var(0), Term::Var(1))) } else { Goal::Diseq(Term::Var(0), Term::Var(1)) };
        if s.flag(128) {
            before.push(g)
        } else {
            after.push(g)
        }
    }
    Case { before, coll, body, after, fd, via_project: false }
}

fn run_long(bytes: &[u8], ctx: &Ctx) -> CaseInfo {
    let mut s = Source::new(bytes);
    let c = decode_long(&mut s, ctx.tier == Tier::Thorough);
    let mut info = eval(&c, ctx);
    truncate_sample(&mut info, 400);
    let n = c.coll.len();
    info.class(if n >= 256 { "elements>=256" } else if n >= 64 { "elements>=64" } else if n >= 16 { "elements>=16" } else { "elements<16" });
    info
}

const LCOLL: VarId = 8; // the variable holding the collection in the via_project form

fn with_for(c: &Case) -> Program {
    let mut body = c.before.clone();
    if c.via_project {
        let l = Term::Var(LCOLL);
        body.push(Goal::Fresh(
            vec![LCOLL],
            vec![Goal::Eq(l.clone(), Term::list(c.coll.clone())), Goal::Project(vec![LCOLL], vec![Goal::ForIn(LV, l, c.body.clone())])],
        ));
    } else {
        body.push(Goal::For(LV, c.coll.clone(), c.body.clone()));
    }
    body.extend(c.after.iter().cloned());
    Program { nq: 2, body }
}

fn explicit(c: &Case) -> Program {
    let mut body = c.before.clone();
    let mut conj = vec![];
    let mut next: VarId = 20;
    for e in &c.coll {
        for g in &c.body {
            // fresh variables of the body must be distinct per element
            let inst = subst_goal(g, &[(LV, e.clone())]);
            let inst = match inst {
                Goal::Fresh(vs, b) => {
                    let map: Vec<(VarId, VarId)> = vs.iter().map(|v| { next += 1; (*v, next) }).collect();
                    crate::model::interp::rename_goal(&Goal::Fresh(vs, b), &map)
                }
                g => g,
            };
            conj.push(inst);
        }
    }
    body.push(Goal::Conj(conj));
    body.extend(c.after.iter().cloned());
    Program { nq: 2, body }
}

pub fn eval(c: &Case, ctx: &Ctx) -> CaseInfo {
    let pf = with_for(c);
    let pe = explicit(c);
    let mut info = CaseInfo::default();
    let desc = pf.show();
    info.key = hash_str(&desc);
    info.nontrivial = c.coll.len() >= 2;
    info.class(if c.fd { "fd-body" } else { "tree-body" });
    if c.coll.is_empty() {
        info.class("empty-collection");
    }
    if c.coll.len() % 2 == 0 {
        info.class("collection-as-Vec");
    } else {
        info.class("collection-as-LTerm-list");
    }
    let lim = Limits { max_answers: 3000, budget: 2_000_000 };
    let of = run::run(&pf, Mode::Bfs, lim);
    let oe = run::run(&pe, Mode::Bfs, lim);
    if ctx.want_sample {
        info.sample = Some(json!({ "program": desc, "explicit_conjunction": pe.show(), "answers": run::show_answers(&of.answers), "answers_of_explicit": run::show_answers(&oe.answers) }));
    }
    for (o, p) in [(&of, &pf), (&oe, &pe)] {
        match &o.end {
            End::Panic(pi) => {
                info.fail(format!("C12:panic:{}", pi.key()), format!("{}\n  panicked: {} at {}", p.show(), pi.message, pi.location));
                return info;
            }
            End::Exhausted => {}
            _ => return CaseInfo { skip: Some("incomplete"), ..info },
        }
    }
    let u = canon::universe(&[&pf], &[], canon::count_diseqs(&pe) + 2, 9);
    match canon::multiset_cmp(&of.answers, &oe.answers, &u) {
        Ok(None) => {}
        Err(()) => return CaseInfo { skip: Some("too-big"), ..info },
        Ok(Some(d)) => {
            info.fail(
                "C12:for-differs-from-explicit-conjunction",
                format!("{}\n  answers {}\n  explicit: {}\n  answers {}\n  only for: {}\n  only explicit: {}", desc, run::show_answers(&of.answers), pe.show(), run::show_answers(&oe.answers), run::show_answers(&d.only_left), run::show_answers(&d.only_right)),
            );
            return info;
        }
    }
    if c.coll.is_empty() && c.before.is_empty() && c.after.is_empty() && of.answers.len() != 1 {
        info.fail("C12:empty-collection", format!("{}\n  an empty collection must succeed exactly once; answers {}", desc, run::show_answers(&of.answers)));
        return info;
    }
    if !c.fd {
        if let RefResult::Answers(r) = oracle::reference_answers(&pf) {
            if let Verdict::Fail(sig, detail) = oracle::compare_with_reference("C12", &pf, &of, &r, &u) {
                info.fail(sig, detail);
            }
        }
    }
    info
}

fn run_family(bytes: &[u8], ctx: &Ctx) -> CaseInfo {
    let mut s = Source::new(bytes);
    let c = decode(&mut s);
    eval(&c, ctx)
}

/// `l == [..], project |l| { for x in &l { body } }`: the collection is known only when the goal
/// is solved.
fn run_via_project(bytes: &[u8], ctx: &Ctx) -> CaseInfo {
    let mut s = Source::new(bytes);
    let mut c = decode(&mut s);
    c.via_project = true;
    let mut info = eval(&c, ctx);
    info.class("collection-known-at-solve-time(project)");
    info
}

fn fixed_empty(ctx: &Ctx) -> CaseInfo {
    eval(&Case { before: vec![], coll: vec![], body: vec![Goal::Fail], after: vec![], fd: false, via_project: false }, ctx)
}

pub fn run_family_pub(bytes: &[u8], ctx: &Ctx) -> CaseInfo {
    run_family(bytes, ctx)
}

pub fn def() -> PropertyDef {
    PropertyDef {
        id: "C12",
        rule: "`for x in coll { body }` built through everyg with a move closure (what For::to_tokens expands to), collections of 0-4 terms (ground, partially ground, sharing the two query variables; passed as Vec<LTerm> for even and as an LTerm list for odd sizes), bodies of 1-3 goals over the loop variable, the query variables and a body-local fresh variable (tree profile: ==, !=, member, conde; FD profile: infdrange, ltefd, diseqfd, plusfd on the loop variable), optionally with a constraint before or after the loop. Oracle: multiset(for) = multiset(explicit conjunction of the body instantiated per element) = reference interpreter (tree profile); an empty collection succeeds exactly once. Non-trivial = |coll| >= 2; distinct = hash of the printed program. Family `long-collections`: the same oracle with collections of up to 400 (thorough 1000) elements and (nearly) deterministic bodies. The surface form of `for` (macro) is covered by the compile pipeline of C14",
        assumptions: vec!["surface `for` bodies cannot capture outer logic variables (the generated closure is not `move`), so outer variables are exercised through the API"],
        families: vec![
            Family { name: "everyg", max_len: 96, quick: 120_000, thorough: 3_000_000, run: run_family },
            Family { name: "long-collections", max_len: 48, quick: 60_000, thorough: 150_000, run: run_long },
            Family { name: "for-below-project", max_len: 96, quick: 60_000, thorough: 1_000_000, run: run_via_project },
        ],
        fixed: vec![Fixed { name: "empty-collection-with-failing-body", run: fixed_empty }],
        witnesses: vec![],
        exhaustive: None,
        exhaustive_in_quick: false,
        custom: None,
        custom_replay: None,
    }
}
