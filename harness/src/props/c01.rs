//! C01 — unification computes a most general unifier, with occurs check.

use crate::ast::{show_term, Goal, Kind, Program, Term, VarId};
use crate::build::{build_term, Env, Unbuilder, VUser, E, LT, U};
use crate::canon;
use crate::framework::*;
use crate::gen::terms::{gen_term, mutate, TermCfg};
use crate::guard::{guarded, Guarded};
use crate::model::unify::{unify, Subst};
use crate::run::{self, Limits, Mode};
use crate::source::{hash_str, Source};
use proto_vulcan::lterm::LTermInner;
use proto_vulcan::state::State;
use serde_json::json;

const NV: usize = 4;

#[derive(Clone, Debug)]
pub struct Case {
    pub priors: Vec<(Term, Term)>,
    pub u: Term,
    pub v: Term,
    pub ground: Vec<Term>,
    pub nv: usize,
}

fn show_case(c: &Case) -> String {
    let nv = c.nv;
    let mut s = String::new();
    for (a, b) in &c.priors {
        s.push_str(&format!("{} == {}, ", show_term(a, nv), show_term(b, nv)));
    }
    s.push_str(&format!("{} == {}", show_term(&c.u, nv), show_term(&c.v, nv)));
    s
}

fn decode(s: &mut Source, cfg: &TermCfg) -> Case {
    let np = s.weighted(&[4, 3, 2, 1]);
    let mut priors = vec![];
    for _ in 0..np {
        let a = if s.flag(160) { Term::Var(s.below(NV) as VarId) } else { gen_term(s, cfg, 1) };
        let b = gen_term(s, cfg, 1);
        priors.push((a, b));
    }
    let u = gen_term(s, cfg, 0);
    let v = if s.flag(154) {
        let mut v = mutate(s, cfg, &u);
        if s.flag(80) {
            v = mutate(s, cfg, &v);
        }
        v
    } else {
        gen_term(s, cfg, 0)
    };
    let (u, v) = if s.flag(128) { (v, u) } else { (u, v) };
    // a candidate ground instantiation for the "any other unifier is an instance" check
    let gcfg = TermCfg { vars: vec![], max_depth: 1, ..cfg.clone() };
    let ground = (0..NV).map(|_| gen_term(s, &gcfg, 0)).collect();
    Case { priors, u, v, ground, nv: NV }
}

/// walk* with a depth bound on the raw substitution: None = cyclic (or absurdly deep)
fn safe_resolve(st: &State<U, E>, t: &LT, depth: usize) -> Option<LT> {
    if depth > 60_000 {
        return None;
    }
    let w = st.smap_ref().walk(t).clone();
    match w.as_ref() {
        LTermInner::Cons(h, tl) => {
            let h2 = safe_resolve(st, h, depth + 1)?;
            let t2 = safe_resolve(st, tl, depth + 1)?;
            Some(LT::cons(h2, t2))
        }
        LTermInner::Compound(obj) => {
            // check the children for cycles, then let the library rebuild the compound
            for c in obj.children() {
                if let Some(x) = c.as_term() {
                    safe_resolve(st, x, depth + 1)?;
                }
            }
            Some(st.smap_ref().walk_star(&w))
        }
        _ => Some(w),
    }
}

fn canon_tuple(ts: &[Term]) -> Vec<Term> {
    let mut order = vec![];
    for t in ts {
        t.vars(&mut order);
    }
    ts.iter()
        .map(|t| t.map_vars(&mut |v| Term::Var(order.iter().position(|x| *x == v).unwrap() as VarId)))
        .collect()
}

struct StateRes {
    prior_ok: Vec<bool>,
    ok: bool,
    cyclic: bool,
    sides_equal: bool,
    image: Vec<Term>,
}

fn state_level(c: &Case, swap: bool) -> StateRes {
    let nv = c.nv;
    let env = Env::new();
    let xs: Vec<LT> = (0..nv).map(|i| env.var(i as VarId)).collect();
    let mut st: State<U, E> = State::new(VUser::default());
    let mut prior_ok = vec![];
    for (a, b) in &c.priors {
        let (la, lb) = (build_term(a, &env), build_term(b, &env));
        match st.clone().unify(&la, &lb) {
            Ok(n) => {
                st = n;
                prior_ok.push(true);
                // a cyclic binding accepted by a prior would make every later walk* (and the
                // occurs check itself) recurse without bound: detect it on the raw substitution
                if xs.iter().chain([&la, &lb]).any(|x| safe_resolve(&st, x, 0).is_none()) {
                    return StateRes { prior_ok, ok: true, cyclic: true, sides_equal: false, image: vec![] };
                }
            }
            Err(_) => prior_ok.push(false),
        }
    }
    let (lu, lv) = (build_term(&c.u, &env), build_term(&c.v, &env));
    let r = if swap { st.unify(&lv, &lu) } else { st.unify(&lu, &lv) };
    match r {
        Err(_) => StateRes { prior_ok, ok: false, cyclic: false, sides_equal: true, image: vec![] },
        Ok(st) => {
            let mut cyclic = false;
            let mut imgs = vec![];
            for x in xs.iter().chain([&lu, &lv]) {
                match safe_resolve(&st, x, 0) {
                    Some(t) => imgs.push(t),
                    None => cyclic = true,
                }
            }
            if cyclic {
                return StateRes { prior_ok, ok: true, cyclic, sides_equal: false, image: vec![] };
            }
            let mut ub = Unbuilder::new();
            let ts: Vec<Term> = imgs.iter().map(|t| ub.term(t)).collect();
            let sides_equal = ts[nv] == ts[nv + 1] && imgs[nv] == imgs[nv + 1];
            StateRes { prior_ok, ok: true, cyclic, sides_equal, image: canon_tuple(&ts[..nv]) }
        }
    }
}

fn reference(c: &Case) -> (Vec<bool>, Option<Vec<Term>>) {
    let nv = c.nv;
    let mut s = Subst::new();
    let mut prior_ok = vec![];
    for (a, b) in &c.priors {
        match unify(&s, a, b) {
            Some(n) => {
                s = n;
                prior_ok.push(true)
            }
            None => prior_ok.push(false),
        }
    }
    let r = unify(&s, &c.u, &c.v).map(|s| {
        let ts: Vec<Term> = (0..nv).map(|i| s.apply(&Term::Var(i as VarId))).collect();
        canon_tuple(&ts)
    });
    (prior_ok, r)
}

fn classify(c: &Case, info: &mut CaseInfo, ref_ok: bool) {
    let both_nonvar = !c.u.is_var() && !c.v.is_var();
    let (mut vu, mut vv) = (vec![], vec![]);
    c.u.vars(&mut vu);
    c.v.vars(&mut vv);
    let shared = vu.iter().any(|x| vv.contains(x));
    info.nontrivial = (both_nonvar && shared) || !c.priors.is_empty();
    if ref_ok {
        info.class("unifiable");
    } else {
        // distinguish occurs-check refusals from clashes: unify without occurs check cannot be
        // asked from the reference, so approximate: shared variable and one side contains the other
        if shared {
            info.class("refused-with-shared-vars");
        } else {
            info.class("clash");
        }
    }
    if c.u.has_improper() || c.v.has_improper() {
        info.class("improper-tail");
    }
    if c.u.has_compound() || c.v.has_compound() {
        info.class("compound");
    }
    if !c.priors.is_empty() {
        info.class("prior-bindings");
    }
}

pub fn eval(c: &Case, ctx: &Ctx) -> CaseInfo {
    let nv = c.nv;
    let mut info = CaseInfo::default();
    let desc = show_case(c);
    info.key = hash_str(&desc);
    let (ref_priors, ref_img) = reference(c);
    classify(c, &mut info, ref_img.is_some());
    if ctx.want_sample {
        info.sample = Some(json!({"program": desc, "reference_mgu_image_of_(q0..q3)": ref_img.as_ref().map(|v| v.iter().map(|t| show_term(t, crate::ast::ANSWER)).collect::<Vec<_>>())}));
    }
    // (a) state level, both orientations
    for swap in [false, true] {
        let c2 = c.clone();
        match guarded(1_000_000, move || state_level(&c2, swap)) {
            Guarded::Ok(r) => {
                let tag = if swap { "unify(v,u)" } else { "unify(u,v)" };
                if r.cyclic {
                    info.fail("C01:cyclic-substitution", format!("{}\n  {}: the substitution is cyclic after a successful unification", desc, tag));
                } else if r.prior_ok != ref_priors {
                    info.fail("C01:prior-success-differs", format!("{}\n  {}: prior successes impl {:?} vs reference {:?}", desc, tag, r.prior_ok, ref_priors));
                } else if r.ok != ref_img.is_some() {
                    info.fail(
                        if r.ok { "C01:unify-succeeds-but-no-unifier" } else { "C01:unify-fails-but-unifier-exists" },
                        format!("{}\n  {}: impl success={} reference success={}", desc, tag, r.ok, ref_img.is_some()),
                    );
                } else if r.ok {
                    if r.cyclic {
                        info.fail("C01:cyclic-substitution", format!("{}\n  {}: the resulting substitution is cyclic", desc, tag));
                    } else if !r.sides_equal {
                        info.fail("C01:sides-differ-after-unify", format!("{}\n  {}: walk*(u) != walk*(v)", desc, tag));
                    } else if Some(&r.image) != ref_img.as_ref() {
                        info.fail(
                            "C01:not-most-general-or-wrong",
                            format!("{}\n  {}: image of (q0..q3) impl {:?} vs reference mgu {:?}", desc, tag, r.image.iter().map(|t| show_term(t, crate::ast::ANSWER)).collect::<Vec<_>>(), ref_img.as_ref().unwrap().iter().map(|t| show_term(t, crate::ast::ANSWER)).collect::<Vec<_>>()),
                        );
                    }
                }
            }
            Guarded::Panic(p) => info.fail(format!("C01:panic:{}", p.key()), format!("{}\n  panicked: {} at {}", desc, p.message, p.location)),
            Guarded::Budget(_) => {}
        }
    }
    if info.failure.is_some() {
        // do not run the query on a case whose substitution may be cyclic: reification would
        // recurse without bound and take the whole process down instead of reporting
        return info;
    }
    // (b) query level
    let mut body: Vec<Goal> = c.priors.iter().map(|(a, b)| Goal::Eq(a.clone(), b.clone())).collect();
    body.push(Goal::Eq(c.u.clone(), c.v.clone()));
    let prog = Program { nq: nv, body };
    let all_priors = ref_priors.iter().all(|b| *b);
    let expected: Option<Vec<Term>> = if all_priors { ref_img.clone() } else { None };
    let out = run::run(&prog, Mode::Bfs, Limits::all());
    match &out.end {
        run::End::Exhausted => {
            let got: Vec<Vec<Term>> = out.answers.iter().map(|a| a.terms.clone()).collect();
            let want: Vec<Vec<Term>> = expected.iter().cloned().collect();
            if got != want || out.answers.iter().any(|a| !a.cons.is_empty()) {
                info.fail("C01:query-answers-differ", format!("{}\n  query answers {} vs expected {:?}", desc, run::show_answers(&out.answers), want.iter().map(|v| v.iter().map(|t| show_term(t, crate::ast::ANSWER)).collect::<Vec<_>>()).collect::<Vec<_>>()));
            }
        }
        run::End::Panic(p) => info.fail(format!("C01:panic:{}", p.key()), format!("{}\n  query panicked: {} at {}", desc, p.message, p.location)),
        _ => {}
    }
    // instance check, independent of the reference's mgu image: P ∧ (q0..q3) == g has an
    // answer  <=>  g is an instance of some unifier  <=>  (reference) P ∧ q==g is unifiable
    if all_priors {
        let mut body2 = prog.body.clone();
        // derive g from the mgu image when there is one (so that true instances are frequent)
        let g: Vec<Term> = match &ref_img {
            Some(img) if !c.ground.is_empty() => {
                let fill = &c.ground;
                img.iter().map(|t| t.map_vars(&mut |v| fill[(v as usize) % fill.len()].clone())).collect()
            }
            _ => c.ground.clone(),
        };
        // and perturb one component with the raw ground term in half of the cases
        let g: Vec<Term> = if hash_str(&desc) & 1 == 1 {
            let mut g = g;
            g[0] = c.ground[0].clone();
            g
        } else {
            g
        };
        body2.push(Goal::Eq(Term::list((0..nv).map(|i| Term::Var(i as VarId)).collect()), Term::list(g.clone())));
        let p2 = Program { nq: nv, body: body2 };
        let mut s = Subst::new();
        let mut ok = true;
        for gl in &p2.body {
            if let Goal::Eq(a, b) = gl {
                match unify(&s, a, b) {
                    Some(n) => s = n,
                    None => {
                        ok = false;
                        break;
                    }
                }
            }
        }
        let out2 = run::run(&p2, Mode::Bfs, Limits::all());
        if out2.complete() {
            let got = !out2.answers.is_empty();
            if got != ok {
                info.fail(
                    if ok { "C01:instance-of-mgu-rejected" } else { "C01:non-unifier-accepted" },
                    format!("{}\n  extended with (q0..q3) == {:?}: impl has answer = {}, reference = {}", desc, g.iter().map(|t| show_term(t, nv)).collect::<Vec<_>>(), got, ok),
                );
            }
            if ok {
                info.class("instance-accepted");
            } else {
                info.class("non-instance-rejected");
            }
        }
    }
    let _ = canon::term_var_count;
    info
}

fn run_family(bytes: &[u8], ctx: &Ctx) -> CaseInfo {
    let mut s = Source::new(bytes);
    let mut cfg = TermCfg::all_literals((0..NV as VarId).collect());
    // anonymous `_` variables among the named ones
    cfg.wild = Some(std::rc::Rc::new(std::cell::Cell::new(crate::ast::WILD_BASE)));
    let c = decode(&mut s, &cfg);
    if std::env::var("PVH_SHOW").is_ok() {
        eprintln!("SHOW {}", show_case(&c));
    }
    eval(&c, ctx)
}

fn run_lists(bytes: &[u8], ctx: &Ctx) -> CaseInfo {
    // denser family: small alphabet, lists and Pair only — more variable sharing
    let mut s = Source::new(bytes);
    let mut cfg = TermCfg::small_ints((0..NV as VarId).collect());
    cfg.kinds = vec![Kind::Pair, Kind::Node];
    cfg.max_depth = 3;
    if s.flag(128) {
        cfg.wild = Some(std::rc::Rc::new(std::cell::Cell::new(crate::ast::WILD_BASE)));
    }
    let c = decode(&mut s, &cfg);
    if std::env::var("PVH_SHOW").is_ok() {
        eprintln!("SHOW {}", show_case(&c));
    }
    eval(&c, ctx)
}

/// Scale family: one dimension is large (spine length / nesting depth of a term, number of
/// variables in a chain of var-var equations), everything else small.
fn decode_scale(s: &mut Source, thorough: bool) -> Case {
    use crate::gen::scale::{self, big_term, elements, SPINES};
    let cap = scale::cap(thorough);
    let template = s.weighted(&[3, 3, 4]);
    let small = |s: &mut Source, vars: &[VarId]| -> Term {
        let cfg = TermCfg { max_depth: 1, max_len: 2, ..TermCfg::small_ints(vars.to_vec()) };
        gen_term(s, &cfg, 0)
    };
    match template {
        // a variable (or small term) against a big term that may contain it deep down
        0 => {
            let nv = 1 + s.below(4);
            let vars: Vec<VarId> = (0..nv as VarId).collect();
            let n = scale::size(s, cap);
            let shape = SPINES[s.below(SPINES.len())];
            let el = elements(s, n, &vars, 3);
            let end = if s.flag(170) { Term::Var(vars[s.below(nv)]) } else { small(s, &vars) };
            let big = big_term(shape, n, &mut |i| el[i].clone(), end);
            let other = if s.flag(190) { Term::Var(vars[s.below(nv)]) } else { small(s, &vars) };
            let mut priors = vec![];
            if s.flag(90) {
                // reach the big term through a prior binding
                let y = vars[s.below(nv)];
                priors.push((Term::Var(y), small(s, &vars)));
            }
            let (u, v) = if s.flag(128) { (big, other) } else { (other, big) };
            let ground = (0..nv).map(|_| small(s, &[])).collect();
            Case { priors, u, v, ground, nv }
        }
        // two big terms that differ in at most a few positions
        1 => {
            let nv = 1 + s.below(4);
            let vars: Vec<VarId> = (0..nv as VarId).collect();
            let n = scale::size(s, cap);
            let shape = SPINES[s.below(SPINES.len())];
            let el = elements(s, n, &vars, 4);
            let end = small(s, &vars);
            let u = big_term(shape, n, &mut |i| el[i].clone(), end.clone());
            let mut el2 = el.clone();
            let changes = s.below(3);
            for _ in 0..changes {
                let pos = s.below(n);
                el2[pos] = small(s, &vars);
            }
            let end2 = if s.flag(60) { small(s, &vars) } else { end };
            // occasionally one element longer / shorter
            let n2 = match s.weighted(&[6, 1, 1]) {
                0 => n,
                1 => n + 1,
                _ => n.saturating_sub(1).max(1),
            };
            let v = big_term(shape, n2, &mut |i| el2.get(i).cloned().unwrap_or(Term::Int(0)), end2);
            let ground = (0..nv).map(|_| small(s, &[])).collect();
            Case { priors: vec![], u, v, ground, nv }
        }
        // a long chain of var-var equations posted in some systematic or random order
        _ => {
            let n = scale::size(s, cap).max(2);
            let nv = n + 1;
            let order: Vec<usize> = match s.weighted(&[3, 2, 2]) {
                0 => (0..n).collect(),
                1 => (0..n).rev().collect(),
                _ => s.permutation(n),
            };
            let orient = s.weighted(&[3, 2, 2]); // forward, backward, mixed
            let mut priors = vec![];
            for (k, i) in order.iter().enumerate() {
                let (a, b) = (Term::Var(*i as VarId), Term::Var((*i + 1) as VarId));
                let fwd = match orient {
                    0 => true,
                    1 => false,
                    _ => (k + *i) % 3 != 0,
                };
                priors.push(if fwd { (a, b) } else { (b, a) });
            }
            let pickv = |s: &mut Source| -> VarId {
                match s.weighted(&[2, 2, 3]) {
                    0 => 0,
                    1 => n as VarId,
                    _ => s.below(nv) as VarId,
                }
            };
            if s.flag(170) {
                // bind a member of the chain to a value, at a random point of the posting order
                let x = pickv(s);
                let val = if s.flag(200) { Term::Int(5) } else { Term::list(vec![Term::Int(1), Term::Var(pickv(s))]) };
                let at = s.below(priors.len() + 1);
                let at = if s.flag(128) { priors.len() } else { at };
                priors.insert(at, (Term::Var(x), val));
            }
            let x = pickv(s);
            let (u, v) = match s.weighted(&[3, 2, 2, 2]) {
                0 => (Term::Var(x), Term::Int(if s.flag(128) { 5 } else { 6 })),
                1 => (Term::Var(x), Term::Var(pickv(s))),
                2 => (Term::Var(x), Term::list(vec![Term::Int(0), Term::Var(pickv(s))])),
                _ => (Term::Var(x), Term::Cmp(Kind::Pair, vec![Term::Var(pickv(s)), Term::Int(1)])),
            };
            let (u, v) = if s.flag(128) { (v, u) } else { (u, v) };
            let ground = (0..nv).map(|i| Term::Int((i % 2) as i64 + 5)).collect();
            Case { priors, u, v, ground, nv }
        }
    }
}

/// the scale case as a query program (used by C23)
pub fn scale_program(s: &mut Source, thorough: bool) -> Program {
    let c = decode_scale(s, thorough);
    let mut body: Vec<Goal> = c.priors.iter().map(|(a, b)| Goal::Eq(a.clone(), b.clone())).collect();
    body.push(Goal::Eq(c.u.clone(), c.v.clone()));
    Program { nq: c.nv, body }
}

fn run_scale(bytes: &[u8], ctx: &Ctx) -> CaseInfo {
    let mut s = Source::new(bytes);
    let c = decode_scale(&mut s, ctx.tier == Tier::Thorough);
    if std::env::var("PVH_SHOW").is_ok() {
        eprintln!("SHOW {}", show_case(&c));
    }
    let mut info = eval(&c, ctx);
    let big = c.priors.len().max(c.u.depth()).max(c.v.depth());
    info.class(if big >= 256 { "scale>=256" } else if big >= 64 { "scale>=64" } else if big >= 16 { "scale>=16" } else { "scale<16" });
    info
}

fn fixed_occurs(ctx: &Ctx) -> CaseInfo {
    // x == [x]; through a compound; through a prior binding
    let x = Term::Var(0);
    let y = Term::Var(1);
    let c = Case {
        priors: vec![(y.clone(), Term::Cmp(Kind::Pair, vec![Term::Int(1), x.clone()]))],
        u: x.clone(),
        v: Term::list(vec![Term::Int(0), y.clone()]),
        ground: vec![Term::Int(0); NV],
        nv: NV,
    };
    eval(&c, ctx)
}

fn fixed_improper(ctx: &Ctx) -> CaseInfo {
    let c = Case {
        priors: vec![],
        u: Term::improper(vec![Term::Int(1), Term::Var(0)], Term::Var(1)),
        v: Term::improper(vec![Term::Var(2), Term::Int(2)], Term::Int(3)),
        ground: vec![Term::Int(2), Term::Int(3), Term::Int(1), Term::Nil],
        nv: NV,
    };
    eval(&c, ctx)
}

/// Exhaustive: all pairs of terms up to size 4 over {0, 1, x, y, []} with cons and Pair.
fn exhaustive(ctx: &Ctx, emit: Emit) -> String {
    let leaves = vec![Term::Int(0), Term::Int(1), Term::Var(0), Term::Var(1), Term::Nil];
    let mut by_size: Vec<Vec<Term>> = vec![vec![], leaves.clone()];
    for size in 2..=4usize {
        let mut cur = vec![];
        // binary constructors cons and Pair: size = 1 + a + b ; a + b = size - 1
        for a in 1..size - 1 {
            let b = size - 1 - a;
            if b < 1 {
                continue;
            }
            for ta in &by_size[a] {
                for tb in &by_size[b] {
                    cur.push(Term::cons(ta.clone(), tb.clone()));
                    cur.push(Term::Cmp(Kind::Pair, vec![ta.clone(), tb.clone()]));
                }
            }
        }
        by_size.push(cur);
    }
    let all: Vec<Term> = by_size.into_iter().flatten().collect();
    let quiet = Ctx { want_sample: false, ..*ctx };
    let n = all.len();
    for u in &all {
        for v in &all {
            let c = Case { priors: vec![], u: u.clone(), v: v.clone(), ground: vec![Term::Int(0), Term::Int(1), Term::Nil, Term::Int(0)], nv: NV };
            emit(eval(&c, &quiet));
        }
    }
    format!("all {}x{} pairs of terms of size <= 4 over {{0, 1, q0, q1, []}} with cons and Pair", n, n)
}

pub fn def() -> PropertyDef {
    PropertyDef {
        id: "C01",
        rule: "0-3 prior equations then `u == v` over literals of every kind, 4 shared variables, proper/improper lists and 6 compound kinds (depth <= 3); v is a mutation of u with weight 0.6 (sub-term -> variable, variable buried under a constructor, children swapped, tag/arity/tail changed). Oracle: Robinson unification with occurs check on the AST (success both directions, cycle-freedom of the raw substitution, walk*(u)==walk*(v), image of (q0..q3) isomorphic to the reference mgu, symmetry), the same at query level, and an instance check: the program extended with (q0..q3)==g has an answer iff g unifies with the constraints. Non-trivial = both sides non-variable sharing a variable, or priors present; distinct = hash of the printed case. Family `scale`: the same oracles with one large dimension - a variable or small term against a spine of up to 400 (thorough 1000) levels (list, improper list, successor nesting, Pair/Node nesting, head nesting) that may contain it deep down, two long near-identical terms, chains of up to 400 var-var equations posted ascending / descending / shuffled and oriented forward / backward / mixed, then a member of the chain is decided",
        assumptions: vec!["the 60-line reference unifier (model/unify.rs) is correct; it has its own unit test and shares no code with the implementation"],
        families: vec![
            Family { name: "all-kinds", max_len: 96, quick: 150_000, thorough: 4_000_000, run: run_family },
            Family { name: "lists-dense", max_len: 96, quick: 150_000, thorough: 4_000_000, run: run_lists },
            Family { name: "scale", max_len: 64, quick: 24_000, thorough: 240_000, run: run_scale },
        ],
        fixed: vec![Fixed { name: "occurs-through-prior-and-compound", run: fixed_occurs }, Fixed { name: "improper-tails", run: fixed_improper }],
        witnesses: vec![],
        exhaustive: Some(exhaustive),
        exhaustive_in_quick: false,
        custom: None,
        custom_replay: None,
    }
}
