//! C08 — committed-choice operators keep exactly the committed answers.

use crate::ast::{Arm, Goal, MatchKind, Program, Rel, Term, VarId};
use crate::canon;
use crate::framework::*;
use crate::gen::search::{SearchCfg, SearchGen};
use crate::oracle::{self, RefResult, Verdict};
use crate::run::{self, Answer, End, Limits, Mode};
use crate::source::{hash_str, Source};
use serde_json::json;

const NQ: usize = 3;

#[derive(Clone, Debug, PartialEq)]
pub enum Op {
    Conda,
    Condu,
    Onceo,
}

#[derive(Clone, Debug)]
pub struct Case {
    pub prefix: Vec<Goal>,
    pub op: Op,
    /// clauses [head, rest…]
    pub clauses: Vec<Vec<Goal>>,
    /// finite-domain goals occur: a head's stream can be non-empty although labeling later finds
    /// no solution, so "the head has an answer" is only a sufficient test for commitment
    pub fd: bool,
    /// scale family: larger budgets
    pub big: bool,
}

fn whole(c: &Case) -> Program {
    let mut body = c.prefix.clone();
    body.push(match c.op {
        Op::Conda => Goal::Conda(c.clauses.clone()),
        Op::Condu => Goal::Condu(c.clauses.clone()),
        Op::Onceo => Goal::Onceo(c.clauses[0].clone()),
    });
    Program { nq: NQ, body }
}

/// Re-impose an answer as goals: tuple equality with fresh variables for the reified ones,
/// plus its disequalities.
fn impose(a: &Answer, first_fresh: VarId) -> Goal {
    let rn = |t: &Term| t.map_vars(&mut |v| Term::Var(first_fresh + v));
    let mut nv = vec![];
    for t in &a.terms {
        t.vars(&mut nv);
    }
    for c in &a.cons {
        for (x, y) in c {
            x.vars(&mut nv);
            y.vars(&mut nv);
        }
    }
    let fresh: Vec<VarId> = nv.iter().map(|v| first_fresh + v).collect();
    let mut body = vec![Goal::Eq(Term::list((0..NQ).map(|i| Term::Var(i as VarId)).collect()), Term::list(a.terms.iter().map(rn).collect()))];
    for c in &a.cons {
        body.push(Goal::Diseq(Term::list(c.iter().map(|(x, _)| rn(x)).collect()), Term::list(c.iter().map(|(_, y)| rn(y)).collect())));
    }
    Goal::Fresh(fresh, body)
}

fn producer(s: &mut Source) -> Vec<Goal> {
    let q0 = Term::Var(0);
    match s.below(7) {
        // heads whose stream is mature (Cons) as soon as it is started
        4 => vec![Goal::Always],
        5 => vec![Goal::Conde(vec![vec![Goal::Succeed], vec![Goal::Eq(q0, Term::Int(5))]])],
        6 => vec![Goal::Anyo(vec![Goal::Succeed])],
        0 => vec![Goal::Anyo(vec![Goal::Call(Rel::Member, vec![q0, Term::ints(&[1, 2])])])],
        1 => vec![Goal::Always, Goal::Eq(q0, Term::Int(3))],
        2 => vec![Goal::Call(Rel::Nat, vec![q0])],
        _ => vec![Goal::Conde(vec![vec![Goal::Never], vec![Goal::Call(Rel::Nat, vec![Term::Var(1)]), Goal::Eq(q0, Term::Int(4))]])],
    }
}

fn decode(s: &mut Source) -> Case {
    let scope: Vec<VarId> = (0..NQ as VarId).collect();
    let mut g = SearchGen { s, cfg: SearchCfg { max_goals: 40, max_depth: 2, fresh: false, ..SearchCfg::dfs() }, next_var: 100, goals_left: 40 };
    // deterministic prefix: equalities only
    let np = g.s.below(3);
    let mut prefix = vec![];
    for _ in 0..np {
        let v = Term::Var(scope[g.s.below(NQ)]);
        let t = if g.s.flag(128) { Term::Int(g.s.below(3) as i64) } else { Term::list(vec![Term::Int(g.s.below(3) as i64)]) };
        prefix.push(Goal::Eq(v, t));
    }
    let op = match g.s.weighted(&[3, 3, 2]) {
        0 => Op::Conda,
        1 => Op::Condu,
        _ => Op::Onceo,
    };
    let nclauses = if op == Op::Onceo { 1 } else { 1 + g.s.below(3) };
    let mut clauses = vec![];
    for _ in 0..nclauses {
        let mut sc = scope.clone();
        let infinite = op != Op::Conda && g.s.flag(40);
        let head: Vec<Goal> = if infinite {
            producer(g.s)
        } else {
            g.goals_left = 5;
            g.goals(&mut sc, 1, 1)
        };
        let head_goal = if head.len() == 1 { head[0].clone() } else { Goal::Conj(head) };
        let mut clause = vec![head_goal];
        if op != Op::Onceo {
            g.goals_left = 3;
            let nrest = g.s.below(3);
            if nrest > 0 {
                let mut sc = scope.clone();
                let rest = g.goals(&mut sc, 1, 1);
                clause.extend(rest.into_iter().take(nrest));
            }
        }
        clauses.push(clause);
    }
    Case { prefix, op, clauses, fd: false, big: false }
}

pub fn eval(c: &Case, ctx: &Ctx) -> CaseInfo {
    let mut info = CaseInfo::default();
    let p = whole(c);
    let desc = p.show();
    info.key = hash_str(&desc);
    let lim = if c.big { Limits { max_answers: 20_000, budget: 40_000_000 } } else { Limits { max_answers: 300, budget: 300_000 } };
    let head_budget = if c.big { 20_000_000 } else { 100_000 };
    // k: first clause whose head has an answer after the prefix (by the implementation)
    let mut k = None;
    let mut first_answer = None;
    let mut lazy_first = false;
    for (i, cl) in c.clauses.iter().enumerate() {
        let mut body = c.prefix.clone();
        body.push(cl[0].clone());
        let hp = Program { nq: NQ, body };
        let out = run::run(&hp, Mode::Bfs, Limits::first(1, head_budget));
        match &out.end {
            End::Panic(pi) => {
                info.fail(format!("C08:panic:{}", pi.key()), format!("{}\n  panicked: {} at {}", hp.show(), pi.message, pi.location));
                return info;
            }
            End::Budget(_) => return CaseInfo { skip: Some("head-diverges"), ..info },
            _ => {}
        }
        if let Some(a) = out.answers.first() {
            k = Some(i);
            first_answer = Some(a.clone());
            lazy_first = out.meta[0].steps > 12;
            break;
        }
    }
    let out = run::run(&p, Mode::Bfs, lim);
    if let End::Panic(pi) = &out.end {
        info.fail(format!("C08:panic:{}", pi.key()), format!("{}\n  panicked: {} at {}", desc, pi.message, pi.location));
        return info;
    }
    if !out.complete() {
        return CaseInfo { skip: Some("whole-incomplete"), ..info };
    }
    let u = canon::universe(&[&p], &[], canon::count_diseqs(&p) + 2, 9);
    let expected_prog: Option<Program> = match k {
        None => None,
        Some(i) => {
            let cl = &c.clauses[i];
            let mut body = c.prefix.clone();
            match c.op {
                Op::Conda => body.push(cl[0].clone()),
                Op::Condu | Op::Onceo => body.push(impose(first_answer.as_ref().unwrap(), 200)),
            }
            body.extend(cl[1..].iter().cloned());
            Some(Program { nq: NQ, body })
        }
    };
    let expected: Vec<Answer> = match &expected_prog {
        None => vec![],
        Some(ep) => {
            let eo = run::run(ep, Mode::Bfs, lim);
            if !eo.complete() {
                return CaseInfo { skip: Some("expected-incomplete"), ..info };
            }
            eo.answers
        }
    };
    if ctx.want_sample {
        info.sample = Some(json!({ "program": desc, "committed_clause": k, "first_head_answer": first_answer.as_ref().map(run::show_answer), "answers": run::show_answers(&out.answers), "expected": run::show_answers(&expected) }));
    }
    // head multiplicity for the non-trivial rule
    let mut head_many = false;
    if let Some(i) = k {
        let mut body = c.prefix.clone();
        body.push(c.clauses[i][0].clone());
        let ho = run::run(&Program { nq: NQ, body }, Mode::Bfs, Limits::first(2, 50_000));
        head_many = ho.answers.len() >= 2;
    }
    info.nontrivial = head_many || lazy_first || k.map(|i| i > 0).unwrap_or(false);
    info.class(match c.op {
        Op::Conda => "conda",
        Op::Condu => "condu",
        Op::Onceo => "onceo",
    });
    if head_many {
        info.class("committed-head-has-several-answers");
    }
    if lazy_first {
        info.class("first-head-answer-after-lazy-steps");
    }
    if k.map(|i| i > 0).unwrap_or(false) {
        info.class("earlier-clause-head-fails");
    }
    if k.is_none() {
        info.class("no-clause-applies");
    }
    if c.fd && out.answers.is_empty() && k != Some(0) {
        // committing to an earlier clause whose head's stream is non-empty but has no labeled
        // solution legitimately yields nothing
        info.class("fd:no-answers-and-an-earlier-head-without-solutions");
        return info;
    }
    match canon::multiset_cmp(&out.answers, &expected, &u) {
        Ok(None) => {}
        Err(()) => return CaseInfo { skip: Some("too-big"), ..info },
        Ok(Some(d)) => {
            info.fail(
                format!("C08:{}-answers-differ", match c.op { Op::Conda => "conda", Op::Condu => "condu", Op::Onceo => "onceo" }),
                format!(
                    "{}\n  committed clause: {:?}, first head answer: {:?}\n  answers:  {}\n  expected: {} (= answers of {})\n  only actual: {}\n  only expected: {}",
                    desc,
                    k,
                    first_answer.as_ref().map(run::show_answer),
                    run::show_answers(&out.answers),
                    run::show_answers(&expected),
                    expected_prog.as_ref().map(|p| p.show()).unwrap_or_default(),
                    run::show_answers(&d.only_left),
                    run::show_answers(&d.only_right)
                ),
            );
            return info;
        }
    }
    if c.op == Op::Onceo && out.answers.len() > 1 {
        info.fail("C08:onceo-more-than-one", format!("{}\n  answers {}", desc, run::show_answers(&out.answers)));
        return info;
    }
    // the conda half and the choice of k also against the reference (finite programs)
    if c.op == Op::Conda {
        if let RefResult::Answers(r) = oracle::reference_answers(&p) {
            if let Verdict::Fail(sig, detail) = oracle::compare_with_reference("C08", &p, &out, &r, &u) {
                info.fail(sig, detail);
            }
        }
    }
    info
}

fn run_family(bytes: &[u8], ctx: &Ctx) -> CaseInfo {
    let mut s = Source::new(bytes);
    let c = decode(&mut s);
    eval(&c, ctx)
}

/// Finite-domain goals in prefix, heads and rests of a conda: a posting sequence of family F is
/// cut into prefix | head | rest, with a fallback clause.
fn run_fd(bytes: &[u8], ctx: &Ctx) -> CaseInfo {
    use crate::gen::fd::{gen_case, FdCfg};
    let mut s = Source::new(bytes);
    let cfg = FdCfg { max_vars: NQ, max_constraints: 4, shapes: false, hidden: false, ..FdCfg::full() };
    let fc = gen_case(&mut s, &cfg);
    let goals = fc.goals.clone();
    let n = goals.len();
    let i = s.below(n + 1);
    let j = i + s.below(n - i + 1);
    let head = |gs: &[Goal]| -> Goal {
        match gs.len() {
            0 => Goal::Succeed,
            1 => gs[0].clone(),
            _ => Goal::Conj(gs.to_vec()),
        }
    };
    let mut first = vec![head(&goals[i..j])];
    first.extend(goals[j..].iter().cloned());
    let mut clauses = vec![first];
    let nother = s.below(3);
    for _ in 0..nother {
        let v = Term::Var(s.below(NQ) as VarId);
        let k = s.range(-2, 4);
        let h = match s.weighted(&[3, 2, 2]) {
            0 => Goal::Eq(v.clone(), Term::Int(k)),
            1 => Goal::Fd(crate::ast::FdGoal::Lte(v.clone(), Term::Int(k))),
            _ => Goal::Fd(crate::ast::FdGoal::InFdRange(v.clone(), k, k + 2)),
        };
        let cl = vec![h, Goal::Eq(Term::Var(s.below(NQ) as VarId), Term::Int(s.range(0, 3)))];
        if s.flag(100) {
            clauses.insert(0, cl);
        } else {
            clauses.push(cl);
        }
    }
    // every variable gets a wide base domain first, so that each partial program the oracle runs
    // (prefix + one head) is well-formed: the library requires a domain for every variable of a
    // finite-domain constraint by the time an answer is reified
    let mut prefix = vec![Goal::Fd(crate::ast::FdGoal::InFdRange(Term::list((0..NQ).map(|v| Term::Var(v as VarId)).collect()), cfg.lo - 2, cfg.hi + 2))];
    prefix.extend(goals[..i].iter().cloned());
    let c = Case { prefix, op: Op::Conda, clauses, fd: true, big: false };
    let mut info = eval(&c, ctx);
    info.class("fd-goals");
    if j > i {
        info.class("fd:head-posts-constraints");
    }
    info
}

/// Scale family: the committed head (or an earlier, failing head) is a goal with one large
/// dimension, so that the first head answer arrives after many engine steps / deep recursion.
fn run_scale(bytes: &[u8], ctx: &Ctx) -> CaseInfo {
    let mut s = Source::new(bytes);
    let thorough = ctx.tier == Tier::Thorough;
    let mut next_var: VarId = 100;
    let big = crate::gen::scale::big_goal(&mut s, thorough, &mut next_var);
    let op = match s.weighted(&[3, 3, 2]) {
        0 => Op::Conda,
        1 => Op::Condu,
        _ => Op::Onceo,
    };
    let (q, r, z) = (Term::Var(0), Term::Var(1), Term::Var(2));
    let mut prefix = vec![];
    if s.flag(120) {
        // decide q beforehand: the head becomes a (late succeeding or failing) test
        let v = match s.weighted(&[3, 2, 2]) {
            0 => Term::Int(s.below(3) as i64),
            1 => Term::Int(9),
            _ => Term::Int(77),
        };
        prefix.push(Goal::Eq(q.clone(), v));
    }
    let rest: Vec<Goal> = match s.weighted(&[2, 2, 2]) {
        0 => vec![],
        1 => vec![Goal::Eq(z.clone(), Term::Int(1))],
        _ => vec![crate::gen::scale::small_cond(&mut s, &z)],
    };
    let mut first = vec![big];
    if op != Op::Onceo {
        // onceo { g } has no rest: everything inside the operator is the committed goal
        first.extend(rest);
    }
    let fallback = vec![Goal::Eq(z.clone(), Term::Int(5)), Goal::Eq(r.clone(), Term::Int(6))];
    let clauses = if op == Op::Onceo {
        vec![first]
    } else if s.flag(60) {
        vec![fallback, first]
    } else {
        vec![first, fallback]
    };
    let c = Case { prefix, op, clauses, fd: false, big: true };
    if std::env::var("PVH_SHOW").is_ok() {
        eprintln!("SHOW {}", whole(&c).show());
    }
    let mut info = eval(&c, ctx);
    truncate_sample(&mut info, 600);
    info.class("scale");
    info
}

// ---- matcha / matchu built dynamically, against the reference expansion -------------------

fn gen_pattern(s: &mut Source, next: &mut VarId) -> Term {
    let mut pv = |s: &mut Source, next: &mut VarId| -> Term {
        if s.flag(150) {
            let v = *next;
            *next += 1;
            Term::Var(v)
        } else {
            Term::Int(s.below(3) as i64)
        }
    };
    match s.below(5) {
        0 => Term::Int(s.below(3) as i64),
        1 => Term::Nil,
        2 => {
            let a = pv(s, next);
            let b = pv(s, next);
            Term::list(vec![a, b])
        }
        3 => {
            let a = pv(s, next);
            let v = *next;
            *next += 1;
            Term::cons(a, Term::Var(v))
        }
        _ => {
            let v = *next;
            *next += 1;
            Term::Var(v)
        }
    }
}

fn run_match(bytes: &[u8], ctx: &Ctx) -> CaseInfo {
    let mut s = Source::new(bytes);
    let kind = if s.flag(128) { MatchKind::Matcha } else { MatchKind::Matchu };
    let mut next: VarId = 10;
    let mut prefix = vec![];
    if s.flag(150) {
        let t = match s.below(3) {
            0 => Term::Int(s.below(3) as i64),
            1 => Term::list(vec![Term::Int(s.below(3) as i64), Term::Var(1)]),
            _ => Term::cons(Term::Var(1), Term::Var(2)),
        };
        prefix.push(Goal::Eq(Term::Var(0), t));
    }
    let narms = 1 + s.below(3);
    let mut arms = vec![];
    for _ in 0..narms {
        let nalt = 1 + s.below(2);
        let patterns: Vec<Term> = (0..nalt).map(|_| gen_pattern(&mut s, &mut next)).collect();
        // body over query variables only (pattern variables differ between alternatives)
        let nb = s.below(3);
        let mut body = vec![];
        for _ in 0..nb {
            let v = Term::Var(1 + s.below(2) as VarId);
            if s.flag(90) {
                body.push(Goal::Call(Rel::Member, vec![v, Term::ints(&[1, 2])]));
            } else {
                body.push(Goal::Eq(v, Term::Int(s.below(3) as i64)));
            }
        }
        arms.push(Arm { patterns, body });
    }
    let mut body = prefix;
    body.push(Goal::Match(kind, Term::Var(0), arms));
    let p = Program { nq: NQ, body };
    let mut info = CaseInfo::default();
    let desc = p.show();
    info.key = hash_str(&desc);
    let out = run::run(&p, Mode::Bfs, Limits::all());
    let reference = match oracle::reference_answers(&p) {
        RefResult::Answers(a) => a,
        RefResult::Skip(w) => return CaseInfo { skip: Some(w), ..info },
    };
    if ctx.want_sample {
        info.sample = Some(json!({ "program": desc, "answers": run::show_answers(&out.answers), "reference": run::show_answers(&reference) }));
    }
    info.nontrivial = narms >= 2;
    info.class(if kind == MatchKind::Matcha { "matcha" } else { "matchu" });
    let u = canon::universe(&[&p], &[], 3, 9);
    match oracle::compare_with_reference("C08:match", &p, &out, &reference, &u) {
        Verdict::Ok => {}
        Verdict::Skip(w) => return CaseInfo { skip: Some(w), ..info },
        Verdict::Fail(sig, detail) => info.fail(sig, detail),
    }
    info
}

fn fixed_conda_vs_condu(ctx: &Ctx) -> CaseInfo {
    // the difference the suite says it does not test: head with two answers
    let c = Case {
        prefix: vec![],
        op: Op::Condu,
        clauses: vec![vec![Goal::Call(Rel::Member, vec![Term::Var(0), Term::ints(&[1, 2, 3])]), Goal::Eq(Term::Var(1), Term::Var(0))], vec![Goal::Eq(Term::Var(0), Term::Int(9))]],
        fd: false,
        big: false,
    };
    let mut i = eval(&c, ctx);
    let c2 = Case { op: Op::Conda, ..c };
    let j = eval(&c2, ctx);
    if i.failure.is_none() {
        i.failure = j.failure;
    }
    i
}

pub fn run_family_pub(bytes: &[u8], ctx: &Ctx) -> CaseInfo {
    run_family(bytes, ctx)
}

pub fn run_match_pub(bytes: &[u8], ctx: &Ctx) -> CaseInfo {
    run_match(bytes, ctx)
}

// ---- matcha / matchu in macro syntax, through the compile pipeline ------------------------------

fn nt_surface(p: &Program, _kinds: &[&'static str]) -> bool {
    p.body.iter().map(|g| if let Goal::Match(_, _, a) = g { a.len() } else { 0 }).max().unwrap_or(0) >= 2
}

fn fam_surface() -> crate::props::surface::SurfaceFamily {
    crate::props::surface::SurfaceFamily {
        prop: "C08",
        name: "matcha-matchu-surface",
        max_len: 160,
        quick: 450,
        thorough: 6_000,
        decode: crate::gen::surface::gen_c13_committed,
        variants: crate::props::surface::one_variant,
        nontrivial: nt_surface,
    }
}

fn custom(tier: Tier, seed: u64, stats: &mut Stats) -> Result<(), String> {
    // debugging aid: PVH_FAMILY restricts a run to one family
    if let Ok(f) = std::env::var("PVH_FAMILY") {
        if f != "matcha-matchu-surface" {
            return Ok(());
        }
    }
    crate::props::surface::drive(&fam_surface(), tier, seed, stats)
}

fn custom_replay(_fam: &str, bytes: &[u8], ctx: &Ctx) -> Result<CaseInfo, String> {
    crate::props::surface::replay_one(&fam_surface(), bytes, ctx)
}

pub fn def() -> PropertyDef {
    PropertyDef {
        id: "C08",
        rule: "a deterministic prefix (equalities) then conda / condu with 1-3 clauses [head, rest…] or onceo{g}; heads are family S goals over the 3 query variables (0, 1 or many answers, lazily produced through closures and recursive relations) or, for condu/onceo, infinite producers. Oracle (metamorphic): k = first clause whose head run alone after the prefix has an answer; conda: answers = answers of `prefix, head_k, rest_k`; condu/onceo: answers = answers of `prefix, <first head answer re-imposed as goals>, rest_k`; no clause => no answers; onceo <= 1 answer; conda additionally equals the reference interpreter's soft-cut. A second family builds matcha/matchu and compares with the reference expansion. Non-trivial = the committed head has >=2 answers, or its first answer needs lazy steps, or k>1 (match family: >=2 arms); distinct = hash of the printed program. Family `matcha-matchu-surface` (compile pipeline): C13's generated pattern-matching programs in their committed-choice forms, emitted as macro syntax, compiled and compared with the reference expansion (first goal of an arm = `t == p` is the committed head). Family `fd-heads`: a family F posting sequence (domains, constraints, equalities over 3 variables with a wide base domain first) cut into prefix | conda head | rest plus fallback clauses; an empty result is also accepted when an earlier head has no labeled solution (its stream may still be non-empty). Family `scale`: the committed or an earlier failing head is a goal with one large dimension (first answer after up to millions of engine steps)",
        assumptions: vec!["'first answer in engine order' is by definition what the engine yields for the head alone", "reference interpreter correct (conda half, match family)"],
        families: vec![
            Family { name: "conda-condu-onceo", max_len: 200, quick: 80_000, thorough: 2_000_000, run: run_family },
            Family { name: "matcha-matchu", max_len: 96, quick: 60_000, thorough: 1_500_000, run: run_match },
            Family { name: "fd-heads", max_len: 120, quick: 60_000, thorough: 1_500_000, run: run_fd },
            Family { name: "scale", max_len: 48, quick: 8_000, thorough: 80_000, run: run_scale },
        ],
        fixed: vec![Fixed { name: "condu-vs-conda-head-with-three-answers", run: fixed_conda_vs_condu }],
        witnesses: vec![],
        exhaustive: None,
        exhaustive_in_quick: false,
        custom: Some(custom),
        custom_replay: Some(custom_replay),
    }
}
