use crate::framework::PropertyDef;

pub mod c01;
pub mod c02;
pub mod c03;
pub mod c04;
pub mod c05;
pub mod c06;
pub mod c07;
pub mod c08;
pub mod c09;
pub mod c10;
pub mod c11;
pub mod c12;
pub mod c14;
pub mod c16;
pub mod c18;
pub mod c19;
pub mod c20;
pub mod c21;
pub mod c22;
pub mod c23;
pub mod c24;
pub mod scale_mix;
pub mod surface;

pub fn all() -> Vec<PropertyDef> {
    vec![c01::def(), c02::def(), c03::def(), c04::def(), c05::def(), c06::def(), c07::def(), c08::def(), c09::def(), c10::def(), c11::def(), c12::def(), c14::def13(), c14::def14(), c14::def15(), c16::def16(), c16::def17(), c18::def(), c19::def(), c20::def(), c21::def(), c22::def(), c23::def(), c24::def()]
}
