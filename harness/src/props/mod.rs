use crate::framework::PropertyDef;

pub mod c01;
pub mod c02;
pub mod c18;

pub fn all() -> Vec<PropertyDef> {
    vec![c01::def(), c02::def(), c18::def()]
}
