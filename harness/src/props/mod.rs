use crate::framework::PropertyDef;

pub mod c18;

pub fn all() -> Vec<PropertyDef> {
    vec![c18::def()]
}
