//! C16 — CLP(FD) answers satisfy every posted constraint (soundness)
//! C17 — CLP(FD) labeling returns every solution exactly once (completeness, uniqueness)
//! One generator, one brute-force oracle, two verdicts.

use crate::ast::{Goal, Term, VarId};
use crate::framework::*;
use crate::gen::fd::{gen_case, has_alias, FdCase, FdCfg, QueryShape};
use crate::model::fdbrute;
use crate::run::{self, End, Limits, Mode};
use crate::source::{hash_str, Source};
use serde_json::json;
use std::collections::BTreeMap;

pub struct Verdicts {
    pub info: CaseInfo,
    pub c16: Option<Failure>,
    pub c17: Option<Failure>,
}

fn expected_tuples(c: &FdCase, sols: &[Vec<i64>]) -> Vec<Vec<Term>> {
    let mut out = vec![];
    for s in sols {
        let mut t: Vec<Term> = (0..c.nvisible).map(|v| Term::Int(s[v])).collect();
        if let Some(st) = &c.shape_term {
            t.push(st.map_vars(&mut |v: VarId| Term::Int(s[v as usize])));
        }
        out.push(t);
    }
    out
}

pub fn evaluate(c: &FdCase, ctx: &Ctx) -> Verdicts {
    let p = c.program();
    let mut info = CaseInfo::default();
    let desc = p.show();
    info.key = hash_str(&desc);
    let mut v = Verdicts { info: CaseInfo::default(), c16: None, c17: None };
    let brute = match fdbrute::solve(c.nvars, &c.goals) {
        Some(b) => b,
        None => {
            v.info = CaseInfo { skip: Some("no-domain-or-too-big"), ..info };
            return v;
        }
    };
    // expected: set of projections
    let mut expected: Vec<Vec<Term>> = expected_tuples(c, &brute.solutions);
    expected.sort();
    expected.dedup();
    let out = run::run(&p, Mode::Bfs, Limits { max_answers: 5000, budget: 3_000_000 });
    let nconstraints = c.goals.iter().filter(|g| !matches!(g, Goal::Fd(crate::ast::FdGoal::InFd(..)) | Goal::Fd(crate::ast::FdGoal::InFdRange(..)))).count();
    // classes
    if c.goals.iter().any(has_alias) {
        info.class("operand-aliasing");
    }
    if brute.domains.iter().any(|d| d.iter().any(|x| *x < 0)) {
        info.class("negative-values-in-domain");
    }
    if c.nvisible < c.nvars {
        info.class("hidden-fd-variable");
    }
    match c.shape {
        QueryShape::Plain => {}
        QueryShape::List => info.class("list-query-term"),
        QueryShape::Compound => info.class("compound-query-term"),
    }
    {
        // constraint posted before one of its operands got a domain
        let mut have: Vec<VarId> = vec![];
        let mut early = false;
        for g in &c.goals {
            match g {
                Goal::Fd(crate::ast::FdGoal::InFd(x, _)) | Goal::Fd(crate::ast::FdGoal::InFdRange(x, _, _)) => x.vars(&mut have),
                g => {
                    let mut vs = vec![];
                    g.visit_terms(&mut |t| t.vars(&mut vs));
                    if vs.iter().any(|x| !have.contains(x)) {
                        early = true;
                    }
                }
            }
        }
        if early {
            info.class("constraint-before-domain");
        }
    }
    if c.goals.iter().any(|g| matches!(g, Goal::Fd(crate::ast::FdGoal::Times(..)))) {
        info.class("timesfd");
    }
    info.nontrivial = nconstraints >= 2 && !expected.is_empty() && (brute.solutions.len() as u64) < brute.product;
    if ctx.want_sample {
        info.sample = Some(json!({ "program": desc, "answers": run::show_answers(&out.answers), "brute_force_solutions(projected)": expected.iter().map(|t| t.iter().map(|x| crate::ast::show_term(x, 0)).collect::<Vec<_>>()).collect::<Vec<_>>(), "domain_product": brute.product }));
    }
    match &out.end {
        End::Panic(pi) => {
            // reported under C23 as well; here it makes both verdicts fail
            let f = Failure { signature: format!("panic:{}", pi.key()), detail: format!("{}\n  panicked: {} at {}", desc, pi.message, pi.location) };
            v.c16 = Some(Failure { signature: format!("C16:{}", f.signature), detail: f.detail.clone() });
            v.c17 = Some(Failure { signature: format!("C17:{}", f.signature), detail: f.detail });
            v.info = info;
            return v;
        }
        End::Exhausted => {}
        _ => {
            v.info = CaseInfo { skip: Some("impl-incomplete"), ..info };
            return v;
        }
    }
    let got: Vec<Vec<Term>> = out.answers.iter().map(|a| a.terms.clone()).collect();
    let show = |t: &Vec<Term>| format!("({})", t.iter().map(|x| crate::ast::show_term(x, crate::ast::ANSWER)).collect::<Vec<_>>().join(", "));
    // C16: every answer is a solution
    for (a, t) in out.answers.iter().zip(got.iter()) {
        let ground = t.iter().all(|x| x.is_ground());
        if !ground {
            let in_compound_only = c.shape == QueryShape::Compound && t[..c.nvisible].iter().all(|x| x.is_ground());
            if in_compound_only {
                v.c17.get_or_insert(Failure { signature: "C17:fd-variable-in-compound-not-labeled".into(), detail: format!("{}\n  answer {} leaves a finite-domain variable inside the compound unlabeled; expected {} solution(s)", desc, show(t), expected.len()) });
            } else {
                v.c16.get_or_insert(Failure { signature: "C16:constrained-variable-not-an-integer".into(), detail: format!("{}\n  answer {} leaves a constrained variable without an integer value", desc, run::show_answer(a)) });
            }
            continue;
        }
        if !expected.contains(t) {
            // which constraint does the answer violate (decidable when nothing is hidden)
            let which = if c.nvisible == c.nvars {
                let asg: Vec<i64> = t[..c.nvars].iter().map(|x| if let Term::Int(i) = x { *i } else { 0 }).collect();
                let in_dom = asg.iter().zip(brute.domains.iter()).all(|(x, d)| d.contains(x));
                if !in_dom {
                    "outside-domain".to_string()
                } else {
                    c.goals.iter().find(|g| !fdbrute::satisfies(g, &asg)).map(goal_kind).unwrap_or("query-term").to_string()
                }
            } else {
                "with-hidden-variable".to_string()
            };
            v.c16.get_or_insert(Failure {
                signature: format!("C16:answer-violates:{}", which),
                detail: format!("{}\n  answer {} is not a solution; brute-force solutions (projected on the query): [{}]", desc, show(t), expected.iter().map(show).collect::<Vec<_>>().join("; ")),
            });
        }
    }
    // C17: every solution exactly once
    let mut counts: BTreeMap<&Vec<Term>, usize> = BTreeMap::new();
    for t in &got {
        *counts.entry(t).or_insert(0) += 1;
    }
    for e in &expected {
        match counts.get(e).copied().unwrap_or(0) {
            1 => {}
            0 => {
                let kinds: std::collections::BTreeSet<&str> = c.goals.iter().map(goal_kind).filter(|k| *k != "domain").collect();
                v.c17.get_or_insert(Failure {
                    signature: format!("C17:solution-missing:{}", kinds.into_iter().collect::<Vec<_>>().join("+")),
                    detail: format!("{}\n  solution {} is not returned; answers: [{}]", desc, show(e), got.iter().map(show).collect::<Vec<_>>().join("; ")),
                });
            }
            n => {
                v.c17.get_or_insert(Failure { signature: "C17:solution-duplicated".into(), detail: format!("{}\n  solution {} is returned {} times", desc, show(e), n) });
            }
        }
    }
    for (t, n) in &counts {
        if *n > 1 && !expected.contains(t) {
            // duplicates of non-solutions are C16's business
        }
    }
    v.info = info;
    v
}

fn goal_kind(g: &Goal) -> &'static str {
    match g {
        Goal::Eq(..) => "==",
        Goal::Fd(F::Lte(..)) => "ltefd",
        Goal::Fd(F::Lt(..)) => "ltfd",
        Goal::Fd(F::Plus(..)) => "plusfd",
        Goal::Fd(F::Minus(..)) => "minusfd",
        Goal::Fd(F::Times(..)) => "timesfd",
        Goal::Fd(F::Diseq(..)) => "diseqfd",
        Goal::Fd(F::Distinct(..)) => "distinctfd",
        _ => "domain",
    }
}

fn finish(mut v: Verdicts, which: u8) -> CaseInfo {
    let f = if which == 16 { v.c16.take() } else { v.c17.take() };
    v.info.failure = f;
    v.info
}

fn full_cfg() -> FdCfg {
    FdCfg { non_int_eq: true, ..FdCfg::full() }
}

fn run16(bytes: &[u8], ctx: &Ctx) -> CaseInfo {
    let mut s = Source::new(bytes);
    let c = gen_case(&mut s, &full_cfg());
    finish(evaluate(&c, ctx), 16)
}

fn run17(bytes: &[u8], ctx: &Ctx) -> CaseInfo {
    let mut s = Source::new(bytes);
    let c = gen_case(&mut s, &full_cfg());
    finish(evaluate(&c, ctx), 17)
}

fn simple_cfg() -> FdCfg {
    FdCfg { max_vars: 3, max_constraints: 3, lo: 0, hi: 5, aliasing: false, times: false, eq: false, shapes: false, hidden: false, non_int_eq: false }
}

fn run16_simple(bytes: &[u8], ctx: &Ctx) -> CaseInfo {
    let mut s = Source::new(bytes);
    let c = gen_case(&mut s, &simple_cfg());
    finish(evaluate(&c, ctx), 16)
}

fn run17_simple(bytes: &[u8], ctx: &Ctx) -> CaseInfo {
    let mut s = Source::new(bytes);
    let c = gen_case(&mut s, &simple_cfg());
    finish(evaluate(&c, ctx), 17)
}

fn run_wide(bytes: &[u8], ctx: &Ctx, which: u8) -> CaseInfo {
    let mut s = Source::new(bytes);
    let c = crate::gen::fd::gen_case_wide(&mut s, ctx.tier == Tier::Thorough);
    if std::env::var("PVH_SHOW").is_ok() {
        eprintln!("SHOW {}", c.program().show());
    }
    let mut v = evaluate(&c, ctx);
    // classify by the size of the largest posted domain
    let mut widest = 0usize;
    for g in &c.goals {
        match g {
            Goal::Fd(F::InFd(_, d)) => widest = widest.max(d.len()),
            Goal::Fd(F::InFdRange(_, a, b)) => widest = widest.max((b - a + 1).max(0) as usize),
            _ => {}
        }
    }
    v.info.class(if widest >= 256 { "domain>=256" } else if widest >= 33 { "domain>=33" } else if widest >= 12 { "domain>=12" } else { "domain<12" });
    truncate_sample(&mut v.info, 600);
    finish(v, which)
}

fn run16_wide(bytes: &[u8], ctx: &Ctx) -> CaseInfo {
    run_wide(bytes, ctx, 16)
}

fn run17_wide(bytes: &[u8], ctx: &Ctx) -> CaseInfo {
    run_wide(bytes, ctx, 17)
}

use crate::ast::FdGoal as F;

fn case_plus_xxx() -> FdCase {
    // x in 1..=3, plusfd(x, x, x)
    let x = Term::Var(0);
    FdCase { nvars: 1, nvisible: 1, shape: QueryShape::Plain, shape_term: None, goals: vec![Goal::Fd(F::InFdRange(x.clone(), 1, 3)), Goal::Fd(F::Plus(x.clone(), x.clone(), x.clone()))] }
}

fn case_times_neg() -> FdCase {
    // x, y in -2..=2, timesfd(x, y, -2)
    let (x, y) = (Term::Var(0), Term::Var(1));
    FdCase { nvars: 2, nvisible: 2, shape: QueryShape::Plain, shape_term: None, goals: vec![Goal::Fd(F::InFdRange(Term::list(vec![x.clone(), y.clone()]), -2, 2)), Goal::Fd(F::Times(x, y, Term::Int(-2)))] }
}

fn case_pair() -> FdCase {
    // q == Pair(x, y), x, y in 0..=1
    let (x, y) = (Term::Var(0), Term::Var(1));
    FdCase {
        nvars: 2,
        nvisible: 0,
        shape: QueryShape::Compound,
        shape_term: Some(Term::Cmp(crate::ast::Kind::Pair, vec![x.clone(), y.clone()])),
        goals: vec![Goal::Fd(F::InFdRange(Term::list(vec![x, y]), 0, 1))],
    }
}

fn case_ltfd() -> FdCase {
    // v0 in 0..=1, v1 in 1..=5, ltfd(v1, v0)
    let (a, b) = (Term::Var(0), Term::Var(1));
    FdCase { nvars: 2, nvisible: 2, shape: QueryShape::Plain, shape_term: None, goals: vec![Goal::Fd(F::InFdRange(a.clone(), 0, 1)), Goal::Fd(F::InFdRange(b.clone(), 1, 5)), Goal::Fd(F::Lt(b, a))] }
}

fn case_minus_times() -> FdCase {
    // x, y, z in 0..=4, minusfd(x, y, z), timesfd(y, z, x)
    let (x, y, z) = (Term::Var(0), Term::Var(1), Term::Var(2));
    FdCase {
        nvars: 3,
        nvisible: 2,
        shape: QueryShape::Plain,
        shape_term: None,
        goals: vec![Goal::Fd(F::InFdRange(Term::list(vec![x.clone(), y.clone(), z.clone()]), 0, 4)), Goal::Fd(F::Minus(x.clone(), y.clone(), z.clone())), Goal::Fd(F::Times(y, z, x))],
    }
}

fn fx16_plus(ctx: &Ctx) -> CaseInfo { finish(evaluate(&case_plus_xxx(), ctx), 16) }
fn fx16_ltfd(ctx: &Ctx) -> CaseInfo { finish(evaluate(&case_ltfd(), ctx), 16) }
fn fx16_mt(ctx: &Ctx) -> CaseInfo { finish(evaluate(&case_minus_times(), ctx), 16) }
fn fx17_times(ctx: &Ctx) -> CaseInfo { finish(evaluate(&case_times_neg(), ctx), 17) }
fn fx17_pair(ctx: &Ctx) -> CaseInfo { finish(evaluate(&case_pair(), ctx), 17) }

const RULE: &str = "FD programs with 1-4 variables (query and hidden), domains over -4..=6 as intervals and sparse lists (infd/infdrange on single variables and on lists, sometimes two domains per variable), up to 5 constraints from ltefd/ltfd/plusfd/minusfd/timesfd/diseqfd/distinctfd and == with arbitrary operand aliasing and integer constants, posting order shuffled in half of the cases (constraints before domains included); query term = the variables, a list of operands, or a Pair/tuple of operands; a second family restricts to 0..=5, no aliasing, no timesfd. Oracle: brute-force enumeration of the domain product filtered by every constraint, projected on the query. Non-trivial = >=2 constraints/equalities and 1 <= |solutions| < |domain product|; distinct = hash of the printed program. Family `wide-domains`: 1-3 variables, one of them with intervals of up to 300 (thorough 1200) values or sparse arithmetic progressions of up to 150 values with holes, duplicates and unsorted input, 1-3 domains per variable (interval/sparse intersections of large operands), constants near a witness, domain product <= 200000";

pub fn def16() -> PropertyDef {
    PropertyDef {
        id: "C16",
        rule: RULE,
        assumptions: vec!["brute-force model (model/fdbrute.rs) is correct", "C16 verdict: every answer is a tuple of integers belonging to the brute-force solution set"],
        families: vec![
            Family { name: "fd-full", max_len: 120, quick: 150_000, thorough: 4_000_000, run: run16 },
            Family { name: "fd-simple", max_len: 80, quick: 100_000, thorough: 2_000_000, run: run16_simple },
            Family { name: "wide-domains", max_len: 96, quick: 100_000, thorough: 600_000, run: run16_wide },
        ],
        fixed: vec![Fixed { name: "plusfd-x-x-x", run: fx16_plus }, Fixed { name: "ltfd-stale-operand", run: fx16_ltfd }, Fixed { name: "minusfd-timesfd", run: fx16_mt }],
        witnesses: vec![],
        exhaustive: None,
        exhaustive_in_quick: false,
        custom: None,
        custom_replay: None,
    }
}

pub fn def17() -> PropertyDef {
    PropertyDef {
        id: "C17",
        rule: RULE,
        assumptions: vec!["brute-force model (model/fdbrute.rs) is correct", "C17 verdict: every brute-force solution (projected on the query term) is returned exactly once"],
        families: vec![
            Family { name: "fd-full", max_len: 120, quick: 150_000, thorough: 4_000_000, run: run17 },
            Family { name: "fd-simple", max_len: 80, quick: 100_000, thorough: 2_000_000, run: run17_simple },
            Family { name: "wide-domains", max_len: 96, quick: 100_000, thorough: 600_000, run: run17_wide },
        ],
        fixed: vec![Fixed { name: "timesfd-negative-range", run: fx17_times }, Fixed { name: "pair-of-fd-variables", run: fx17_pair }],
        witnesses: vec![],
        exhaustive: None,
        exhaustive_in_quick: false,
        custom: None,
        custom_replay: None,
    }
}
