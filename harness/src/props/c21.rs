//! C21 — LTerm equality, hashing and list operations are consistent (Vec model).

use crate::ast::{show_term, Term, VarId};
use crate::build::{build_term, Env, Unbuilder, LT};
use crate::framework::*;
use crate::gen::terms::{gen_term, mutate, TermCfg};
use crate::guard::{guarded, Guarded};
use crate::source::{hash_str, Source};
use proto_vulcan::lterm::LTerm;
use serde_json::json;
use std::collections::hash_map::DefaultHasher;
use std::hash::{Hash, Hasher};

fn digest(t: &LT) -> u64 {
    let mut h = DefaultHasher::new();
    t.hash(&mut h);
    h.finish()
}

fn model_display(t: &Term) -> Option<String> {
    Some(match t {
        Term::Int(i) => format!("{}", i),
        Term::Bool(b) => format!("{}", b),
        Term::Char(c) => format!("'{}'", c),
        Term::Str(s) => format!("\"{}\"", s),
        Term::Var(v) => {
            if *v < 16 {
                format!("v{}", v)
            } else {
                return None;
            }
        }
        Term::Nil => "[]".to_string(),
        Term::Cons(..) => {
            let (items, tail) = t.uncons_all();
            let mut s = String::from("[");
            for (i, it) in items.iter().enumerate() {
                if i > 0 {
                    s.push_str(", ");
                }
                s.push_str(&model_display(it)?);
            }
            if *tail != Term::Nil {
                s.push_str(" | ");
                s.push_str(&model_display(tail)?);
            }
            s.push(']');
            s
        }
        Term::Cmp(..) => return None,
    })
}

/// element sequence of a list term: items, then the improper tail as a final element
fn seq(t: &Term) -> Vec<Term> {
    let (items, tail) = t.uncons_all();
    let mut v: Vec<Term> = items.into_iter().cloned().collect();
    if *tail != Term::Nil {
        v.push(tail.clone());
    }
    v
}

/// The same term in fresh cells: every variable and every cons cell is copied (`AsMut` does
/// `Rc::make_mut`, i.e. copy-on-write of a shared cell; a copied variable keeps its VarID).
fn detach(t: &LT) -> LT {
    use proto_vulcan::lterm::LTermInner;
    match t.as_ref() {
        LTermInner::Cons(h, tl) => LTerm::cons(detach(h), detach(tl)),
        LTermInner::Var(..) => {
            let mut y = t.clone();
            let _ = AsMut::<LTermInner<crate::build::U, crate::build::E>>::as_mut(&mut y);
            y
        }
        _ => t.clone(),
    }
}

fn check(a: &Term, b: &Term, c: &Term, extra: &[Term]) -> Option<(String, String, String)> {
    let env = Env::new();
    let bt = |t: &Term| build_term(t, &env);
    let back = |t: &LT| -> Term {
        // convert back keeping program variable identity: map through names is not possible,
        // so compare structurally through the AST of the model instead
        let mut ub = Unbuilder::new();
        ub.term(t)
    };
    macro_rules! chk {
        ($op:expr, $exp:expr, $obs:expr) => {{
            let e = $exp;
            let o = $obs;
            if e != o {
                return Some(($op.to_string(), format!("{:?}", e), format!("{:?}", o)));
            }
        }};
    }
    let (la, lb, lc) = (bt(a), bt(b), bt(c));
    let la2 = bt(a); // rebuilt copy (different Rc cells, same variables through the env)
    // == agrees with structural equality (identity on variables)
    chk!("a == a", true, la == la);
    chk!("a == rebuilt(a)", true, la == la2);
    chk!("a == clone(a)", true, la == la.clone());
    // the same variables in copied cells (copy-on-write of a shared handle keeps the VarID)
    let lad = detach(&la);
    chk!("a == detached copy of a (variables and cons cells copied on write)", true, la == lad);
    chk!("detached copy of a == a", true, lad == la);
    chk!("hash(a) == hash(detached copy of a)", true, digest(&la) == digest(&lad));
    chk!("detached(a) == b", a == b, lad == lb);
    chk!("a == b", a == b, la == lb);
    chk!("b == a", a == b, lb == la);
    chk!("b == c", b == c, lb == lc);
    chk!("a == c", a == c, la == lc);
    if la == lb && lb == lc {
        chk!("transitivity a==b, b==c => a==c", true, la == lc);
    }
    // equal => equal hashes
    chk!("hash(a) == hash(rebuilt(a))", true, digest(&la) == digest(&la2));
    if a == b {
        chk!("a == b => hash(a) == hash(b)", true, digest(&la) == digest(&lb));
    }
    // predicates
    chk!("a.is_list()", matches!(a, Term::Nil | Term::Cons(..)), la.is_list());
    chk!("a.is_empty()", *a == Term::Nil, la.is_empty());
    let (_, tail) = a.uncons_all();
    chk!("a.is_improper()", matches!(a, Term::Cons(..)) && *tail != Term::Nil, la.is_improper());
    match a {
        Term::Cons(h, t) => {
            chk!("a.head()", Some(true), la.head().map(|x| *x == bt(h)));
            chk!("a.tail()", Some(true), la.tail().map(|x| *x == bt(t)));
        }
        _ => {
            chk!("a.head().is_none()", true, la.head().is_none());
            chk!("a.tail().is_none()", true, la.tail().is_none());
        }
    }
    if matches!(a, Term::Nil | Term::Cons(..)) {
        let s = seq(a);
        let ls: Vec<LT> = s.iter().map(|t| bt(t)).collect();
        // iter
        let it: Vec<LT> = la.iter().cloned().collect();
        chk!("a.iter() as sequence", true, it.len() == ls.len() && it.iter().zip(ls.iter()).all(|(x, y)| x == y));
        chk!("a.iter().count()", s.len(), la.iter().count());
        chk!("(&a).into_iter() as sequence", true, (&la).into_iter().zip(ls.iter()).all(|(x, y)| x == y));
        // Index
        for (i, e) in ls.iter().enumerate() {
            chk!(format!("a[{}]", i), true, la[i] == *e);
        }
        // contains
        for e in s.iter().chain(extra.iter()) {
            chk!(format!("a.contains({})", show_term(e, 0)), s.contains(e), la.contains(&bt(e)));
            chk!(format!("a.contains(detached {})", show_term(e, 0)), s.contains(e), la.contains(&detach(&bt(e))));
        }
        // constructors
        let (items, tail) = a.uncons_all();
        let litems: Vec<LT> = items.iter().map(|t| bt(t)).collect();
        if *tail == Term::Nil {
            chk!("LTerm::from_vec(items) == a", true, LTerm::from_vec(litems.clone()) == la);
            chk!("LTerm::from_array(&items) == a", true, LTerm::from_array(&litems) == la);
            chk!("items.collect::<LTerm>() == a", true, litems.iter().cloned().collect::<LT>() == la);
            // extend (documented for proper lists)
            let ex: Vec<LT> = extra.iter().map(|t| bt(t)).collect();
            let mut l2 = la.clone();
            l2.extend(ex.clone());
            let mut all = items.iter().map(|t| (*t).clone()).collect::<Vec<_>>();
            all.extend(extra.iter().cloned());
            chk!("a.extend(extra) == from_vec(items ++ extra)", true, l2 == bt(&Term::list(all)));
            chk!("a unchanged by extending a clone", true, la == la2);
        } else if !items.is_empty() {
            let mut v = litems.clone();
            v.push(bt(tail));
            chk!("LTerm::improper_from_vec(items ++ [tail]) == a", true, LTerm::improper_from_vec(v.clone()) == la);
            chk!("LTerm::improper_from_array(..) == a", true, LTerm::improper_from_array(&v) == la);
        }
        // iter_mut: overwrite every element of the sequence; the original is untouched
        let mut lm = la.clone();
        for e in lm.iter_mut() {
            *e = LTerm::from(7isize);
        }
        let expect = if *tail == Term::Nil { Term::list(vec![Term::Int(7); items.len()]) } else { Term::improper(vec![Term::Int(7); items.len()], Term::Int(7)) };
        chk!("after iter_mut assignment", true, lm == bt(&expect));
        chk!("a unchanged by iter_mut on a clone", true, la == la2);
        // IndexMut
        if !s.is_empty() {
            let mut li = la.clone();
            li[s.len() - 1] = LTerm::from(9isize);
            let mut s2 = s.clone();
            let last = s2.len() - 1;
            s2[last] = Term::Int(9);
            let expect = if *tail == Term::Nil { Term::list(s2) } else { let t = s2.pop().unwrap(); Term::improper(s2, t) };
            chk!("after index_mut assignment of the last element", true, li == bt(&expect));
        }
    }
    // Display
    if let Some(d) = model_display(a) {
        chk!("format!(\"{}\", a)", d, format!("{}", la));
    }
    // round trip through the harness's own conversion (guards the harness)
    let _ = back;
    None
}

fn eval(a: &Term, b: &Term, c: &Term, extra: &[Term], ctx: &Ctx) -> CaseInfo {
    let mut info = CaseInfo::default();
    let desc = format!("a = {}; b = {}; c = {}; extra = [{}]", show_term(a, 0), show_term(b, 0), show_term(c, 0), extra.iter().map(|t| show_term(t, 0)).collect::<Vec<_>>().join(", "));
    info.key = hash_str(&desc);
    info.nontrivial = a.depth() >= 2 || a.has_improper() || std::mem::discriminant(a) != std::mem::discriminant(b);
    if a.has_improper() {
        info.class("improper-list");
    }
    if a.has_compound() {
        info.class("compound");
    }
    if a == b {
        info.class("equal-pair");
    } else {
        info.class("unequal-pair");
    }
    if matches!(a, Term::Nil | Term::Cons(..)) {
        info.class("list-api-exercised");
    }
    if ctx.want_sample {
        info.sample = Some(json!({ "a": show_term(a, 0), "b": show_term(b, 0), "c": show_term(c, 0) }));
    }
    let (a2, b2, c2, e2) = (a.clone(), b.clone(), c.clone(), extra.to_vec());
    match guarded(u64::MAX, move || check(&a2, &b2, &c2, &e2)) {
        Guarded::Ok(None) => {}
        Guarded::Ok(Some((op, exp, obs))) => {
            let opk: String = op.split(|ch| ch == '(' || ch == '[').next().unwrap_or(&op).to_string();
            info.fail(format!("C21:{}", opk), format!("{}\n  operation {}: expected {} observed {}", desc, op, exp, obs));
        }
        Guarded::Panic(p) => info.fail(format!("C21:panic:{}", p.key()), format!("{}\n  panicked: {} at {}", desc, p.message, p.location)),
        Guarded::Budget(_) => {}
    }
    info
}

fn run_family(bytes: &[u8], ctx: &Ctx) -> CaseInfo {
    let mut s = Source::new(bytes);
    let vars: Vec<VarId> = (0..4).collect();
    let mut cfg = TermCfg::all_literals(vars);
    cfg.w = [4, 3, 2, 8, 2];
    let a = gen_term(&mut s, &cfg, 0);
    let b = match s.below(4) {
        0 => a.clone(),
        1 | 2 => mutate(&mut s, &cfg, &a),
        _ => gen_term(&mut s, &cfg, 0),
    };
    let c = match s.below(3) {
        0 => b.clone(),
        1 => mutate(&mut s, &cfg, &b),
        _ => a.clone(),
    };
    let ne = s.below(3);
    let extra: Vec<Term> = (0..ne).map(|_| gen_term(&mut s, &cfg, 2)).collect();
    eval(&a, &b, &c, &extra, ctx)
}

/// Long spines: lists / improper lists / nested constructors of up to 400 (thorough 1000)
/// levels; b and c differ from a in one element, in the tail, or in length by one.
fn run_long(bytes: &[u8], ctx: &Ctx) -> CaseInfo {
    use crate::gen::scale::{self, big_term, elements, SPINES};
    let mut s = Source::new(bytes);
    let thorough = ctx.tier == Tier::Thorough;
    let vars: Vec<VarId> = (0..4).collect();
    let n = scale::size(&mut s, scale::cap(thorough));
    // lists twice as often as the other spines
    let shape = if s.flag(128) { SPINES[s.below(2)] } else { SPINES[s.below(SPINES.len())] };
    let el = elements(&mut s, n, &vars, 4);
    let end = if s.flag(128) { Term::Var(vars[s.below(4)]) } else { Term::Int(5) };
    let a = big_term(shape, n, &mut |i| el[i].clone(), end.clone());
    let variant = |s: &mut Source, of: &Vec<Term>, end: &Term| -> Term {
        let mut e2 = of.clone();
        match s.below(5) {
            0 => {}
            1 => {
                let pos = s.below(e2.len());
                e2[pos] = if s.flag(128) { Term::Var(vars[s.below(4)]) } else { Term::Int(8) };
            }
            2 => {
                // last element
                let pos = e2.len() - 1;
                e2[pos] = Term::Int(8);
            }
            3 => e2.push(Term::Int(0)),
            _ => {
                if e2.len() > 1 {
                    e2.pop();
                }
            }
        }
        let end2 = if s.flag(50) { Term::Int(6) } else { end.clone() };
        let m = e2.len();
        big_term(shape, m, &mut |i| e2[i].clone(), end2)
    };
    let b = variant(&mut s, &el, &end);
    let c = match s.below(3) {
        0 => b.clone(),
        1 => variant(&mut s, &el, &end),
        _ => a.clone(),
    };
    let extra: Vec<Term> = if s.flag(128) { vec![Term::Int(3), Term::Var(1)] } else { vec![] };
    let mut info = eval(&a, &b, &c, &extra, ctx);
    truncate_sample(&mut info, 300);
    info.class(if n >= 256 { "spine>=256" } else if n >= 64 { "spine>=64" } else if n >= 16 { "spine>=16" } else { "spine<16" });
    info
}

fn fixed_tails(ctx: &Ctx) -> CaseInfo {
    // nested improper tails and a hash/eq check on lists differing only in the tail
    let a = Term::improper(vec![Term::Int(1), Term::improper(vec![Term::Int(2)], Term::Var(0))], Term::Var(1));
    let b = Term::improper(vec![Term::Int(1), Term::improper(vec![Term::Int(2)], Term::Var(0))], Term::Var(2));
    eval(&a, &b, &a, &[Term::Var(1)], ctx)
}

pub fn def() -> PropertyDef {
    PropertyDef {
        id: "C21",
        rule: "triples (a, b, c) of terms of depth <= 3 over literals of every kind, 4 variables, nested proper/improper lists and 6 compound kinds, where b is a, a one-point mutation of a or independent, and c is b, a mutation of b, or a; plus 0-2 extra terms. Oracle: structural equality on the AST with identity on variables for == (reflexive, symmetric, transitive on the triple, rebuilt copies and clones), equal => equal DefaultHasher digests, and a Vec(+tail) model for is_list/is_empty/is_improper/head/tail/iter/into_iter/Index/IndexMut/contains/from_vec/from_array/collect/extend (proper lists)/improper_from_vec/improper_from_array/iter_mut and list Display. Non-trivial = nesting >= 2, an improper list, or a cross-kind comparison; distinct = hash of the printed case. Family `long-spines`: the same oracle on lists / improper lists / successor, Pair, Node and head nestings of up to 400 (thorough 1000) levels, where b and c differ from a in one element, in the last element, in the tail, or in length by one",
        assumptions: vec!["extend is exercised on proper lists only (documented precondition)", "Display of compounds (Debug-derived) is not modelled"],
        families: vec![
            Family { name: "terms", max_len: 120, quick: 400_000, thorough: 10_000_000, run: run_family },
            Family { name: "long-spines", max_len: 64, quick: 120_000, thorough: 600_000, run: run_long },
        ],
        fixed: vec![Fixed { name: "nested-improper-tails", run: fixed_tails }],
        witnesses: vec![],
        exhaustive: None,
        exhaustive_in_quick: false,
        custom: None,
        custom_replay: None,
    }
}
