//! C11 — project sees the current value of the projected variables in every branch.

use crate::ast::{Goal, NonRel, Program, Rel, Term, VarId};
use crate::canon;
use crate::framework::*;
use crate::model::interp;
use crate::oracle::{self, RefResult, Verdict};
use crate::run::{self, End, Limits, Mode};
use crate::source::{hash_str, Source};
use serde_json::json;

pub const FINDING: &str = "C11-project-reached-twice";
const PANIC_MSG: &str = "Cannot project non-Projection LTerm.";

const X: VarId = 2;
const Y: VarId = 3;

#[derive(Clone, Debug)]
pub struct Case {
    pub prefix: Vec<Goal>,
    pub vars: Vec<VarId>,
    pub body: Vec<Goal>,
    pub after: Vec<Goal>,
    /// fresh variables of the clause (X and Y, plus chain variables in the scale family)
    pub fresh: Vec<VarId>,
}

fn program(c: &Case) -> Program {
    let mut inner = c.prefix.clone();
    inner.push(Goal::Project(c.vars.clone(), c.body.clone()));
    inner.extend(c.after.iter().cloned());
    Program { nq: 2, body: vec![Goal::Fresh(c.fresh.clone(), inner)] }
}

/// number of states that reach the project goal according to the reference
fn states_reaching(c: &Case) -> Option<usize> {
    let p = Program { nq: 2, body: vec![Goal::Fresh(c.fresh.clone(), c.prefix.clone())] };
    interp::answers(&p, oracle::REF_FUEL).ok().map(|a| a.len())
}

fn decode(s: &mut Source) -> Case {
    let x = Term::Var(X);
    let y = Term::Var(Y);
    let q0 = Term::Var(0);
    let q1 = Term::Var(1);
    let ints = |s: &mut Source, n: usize| -> Vec<i64> { (0..n).map(|_| s.range(0, 5)).collect() };
    let mut prefix = match s.weighted(&[3, 4, 2, 2, 1, 2, 1, 2]) {
        // x unbound, or aliased to another unbound variable, when the project goal is reached
        5 => vec![],
        6 => vec![Goal::Eq(x.clone(), y.clone())],
        // nested structure whose inner variable is bound afterwards (deep walk needed)
        7 => vec![Goal::Eq(x.clone(), Term::list(vec![Term::Int(1), Term::list(vec![y.clone()]), Term::Cmp(crate::ast::Kind::Pair, vec![y.clone(), Term::Int(0)])])), Goal::Eq(y.clone(), Term::Int(s.range(0, 3)))],
        0 => vec![Goal::Eq(x.clone(), Term::Int(s.range(0, 5)))],
        1 => {
            let n = 1 + s.below(4);
            vec![Goal::Call(Rel::Member, vec![x.clone(), Term::ints(&ints(s, n))])]
        }
        2 => vec![Goal::Conde(vec![vec![Goal::Eq(x.clone(), Term::Int(s.range(0, 5)))], vec![Goal::Eq(x.clone(), Term::Int(s.range(0, 5)))]])],
        3 => vec![Goal::Call(Rel::Append, vec![y.clone(), Term::list(vec![x.clone()]), Term::ints(&ints(s, 1)).clone()]), Goal::Eq(y.clone(), y.clone())],
        _ => vec![Goal::Eq(x.clone(), Term::list(vec![Term::Int(1), y.clone()]))],
    };
    if s.flag(80) {
        prefix.push(Goal::Eq(y.clone(), Term::Int(s.range(0, 3))));
    }
    if s.flag(40) {
        prefix.push(Goal::Eq(q1.clone(), x.clone()));
    }
    let two = s.flag(50);
    let vars = if two { vec![X, Y] } else { vec![X] };
    let nonrel = |s: &mut Source| -> Goal {
        match s.below(8) {
            // relational uses of the projected variable, and a structural groundness test
            4 => Goal::Eq(x.clone(), Term::Int(s.range(0, 5))),
            5 => Goal::Eq(q0.clone(), x.clone()),
            6 | 7 => Goal::NonRel(NonRel::IsGroundTerm(x.clone())),
            0 => Goal::NonRel(NonRel::SqEq(x.clone(), q0.clone())),
            1 => Goal::NonRel(NonRel::AddConst(x.clone(), s.range(0, 3), q0.clone())),
            2 => Goal::NonRel(NonRel::IsGroundInt(x.clone())),
            _ => {
                if two {
                    Goal::NonRel(NonRel::AddConst(y.clone(), 10, q0.clone()))
                } else {
                    Goal::NonRel(NonRel::SqEq(x.clone(), q0.clone()))
                }
            }
        }
    };
    let body = match s.weighted(&[4, 2, 2, 2]) {
        0 => vec![nonrel(s)],
        1 => vec![nonrel(s), nonrel(s)],
        // bodies whose goals are resumed later
        2 => vec![Goal::Conde(vec![vec![nonrel(s)], vec![nonrel(s)]])],
        _ => vec![Goal::Closure(vec![nonrel(s)]), Goal::Eq(q1.clone(), q1.clone())],
    };
    let after = if s.flag(60) { vec![Goal::Diseq(q0.clone(), Term::Int(4))] } else { vec![] };
    Case { prefix, vars, body, after, fresh: vec![X, Y] }
}

pub fn eval(c: &Case, ctx: &Ctx) -> CaseInfo {
    let p = program(c);
    let mut info = CaseInfo::default();
    let desc = p.show();
    info.key = hash_str(&desc);
    let reaching = states_reaching(c);
    let resumed = c.body.iter().any(|g| matches!(g, Goal::Conde(..) | Goal::Closure(..))) || c.body.len() > 1;
    info.nontrivial = reaching.map(|n| n >= 2).unwrap_or(false) || resumed;
    match reaching {
        Some(0) => info.class("project-not-reached"),
        Some(1) => info.class("project-reached-once"),
        Some(_) => info.class("project-reached-by-several-states"),
        None => {}
    }
    if resumed {
        info.class("body-resumed-later");
    }
    let out = run::run(&p, Mode::Bfs, Limits::all());
    let reference = match oracle::reference_answers(&p) {
        RefResult::Answers(a) => a,
        RefResult::Skip(w) => return CaseInfo { skip: Some(w), ..info },
    };
    if ctx.want_sample {
        info.sample = Some(json!({ "program": desc, "states_reaching_project": reaching, "answers": run::show_answers(&out.answers), "end": format!("{:?}", out.end), "reference": run::show_answers(&reference) }));
    }
    if let End::Panic(pi) = &out.end {
        let known = pi.message.contains(PANIC_MSG) && reaching.map(|n| n >= 2).unwrap_or(false);
        if known && !ctx.strict && finding_is_open(FINDING) {
            info.known.push(FINDING);
            return info;
        }
        info.fail(format!("C11:panic:{}", pi.key()), format!("{}\n  panicked: {} at {}\n  states reaching the project goal: {:?}; expected answers {}", desc, pi.message, pi.location, reaching, run::show_answers(&reference)));
        return info;
    }
    let u = canon::universe(&[&p], &[], 3, 9);
    match oracle::compare_with_reference("C11", &p, &out, &reference, &u) {
        Verdict::Ok => {}
        Verdict::Skip(w) => return CaseInfo { skip: Some(w), ..info },
        Verdict::Fail(sig, detail) => {
            // wrong values when several states reach the goal are the same root cause as the
            // panic (one projection cell shared by all states)
            if reaching.map(|n| n >= 2).unwrap_or(false) && !ctx.strict && finding_is_open(FINDING) {
                info.known.push(FINDING);
            } else {
                info.fail(sig, detail);
            }
        }
    }
    info
}

fn run_family(bytes: &[u8], ctx: &Ctx) -> CaseInfo {
    let mut s = Source::new(bytes);
    let c = decode(&mut s);
    eval(&c, ctx)
}

fn witness_case() -> Case {
    // |x| { member(x, [1, 2]), project |x| { q == x*x } }
    Case { prefix: vec![Goal::Call(Rel::Member, vec![Term::Var(X), Term::ints(&[1, 2])])], vars: vec![X], body: vec![Goal::NonRel(NonRel::SqEq(Term::Var(X), Term::Var(0)))], after: vec![], fresh: vec![X, Y] }
}

fn witness() -> Option<String> {
    let strict = Ctx { tier: Tier::Quick, strict: true, want_sample: false };
    let i = eval(&witness_case(), &strict);
    i.failure.map(|f| format!("`member(x, [1, 2]), project |x| {{ sqeq(x, q) }}` fails ({}): the projection rewrites one shared term in place, so the second state to reach the goal panics with 'Cannot project non-Projection LTerm.'", f.signature))
}

fn fixed_once(ctx: &Ctx) -> CaseInfo {
    // test_project_1 shape: reached exactly once, with a resumed body
    let c = Case {
        prefix: vec![Goal::Eq(Term::Var(X), Term::Int(5))],
        vars: vec![X],
        body: vec![Goal::Conde(vec![vec![Goal::NonRel(NonRel::SqEq(Term::Var(X), Term::Var(0)))], vec![Goal::NonRel(NonRel::AddConst(Term::Var(X), 1, Term::Var(0)))]])],
        after: vec![],
        fresh: vec![X, Y],
    };
    eval(&c, ctx)
}

/// Scale: the projected variable reaches its value through a chain of up to 400 (thorough 1000)
/// aliases posted head-first, tail-first or shuffled, or is bound to a term with a spine of that
/// many levels containing variables that are bound only afterwards. One state reaches the goal.
fn run_scale(bytes: &[u8], ctx: &Ctx) -> CaseInfo {
    use crate::gen::scale::{self, big_term, SPINES};
    let mut s = Source::new(bytes);
    let thorough = ctx.tier == Tier::Thorough;
    let x = Term::Var(X);
    let y = Term::Var(Y);
    let q0 = Term::Var(0);
    let n = scale::size(&mut s, scale::cap(thorough));
    let template = s.weighted(&[3, 4]);
    let order_kind = s.weighted(&[3, 3, 2]);
    let val = s.range(0, 5);
    let body_kind = s.below(6);
    let late_first = s.flag(128);
    let shape = if s.flag(128) { SPINES[0] } else { SPINES[s.below(SPINES.len())] };
    let npos = 1 + s.below(3);
    let positions: Vec<usize> = (0..npos).map(|i| if i == 0 && s.flag(128) { n - 1 } else { s.below(n) }).collect();
    let mut fresh = vec![X, Y];
    let mut prefix: Vec<Goal> = vec![];
    let value_is_int;
    if template == 0 {
        // x == b1, b1 == b2, ..., b(n) == value
        let b = |i: usize| if i == 0 { Term::Var(X) } else { Term::Var((10 + i) as VarId) };
        fresh.extend((1..=n).map(|i| (10 + i) as VarId));
        let mut links: Vec<Goal> = (0..n).map(|i| if (i + val as usize) % 5 == 0 { Goal::Eq(b(i + 1), b(i)) } else { Goal::Eq(b(i), b(i + 1)) }).collect();
        let last = if val % 2 == 0 { Goal::Eq(b(n), Term::Int(val)) } else { Goal::Eq(b(n), Term::list(vec![Term::Int(val), y.clone()])) };
        value_is_int = val % 2 == 0;
        links.push(last);
        match order_kind {
            0 => {}
            1 => links.reverse(),
            _ => {
                let perm = s.permutation(links.len());
                links = perm.into_iter().map(|i| links[i].clone()).collect();
            }
        }
        prefix.extend(links);
        prefix.push(Goal::Eq(y.clone(), Term::Int(1)));
    } else {
        // x == <spine with y at some positions>, y bound before or after
        let el: Vec<Term> = (0..n).map(|i| if positions.contains(&i) { y.clone() } else { Term::Int((i % 3) as i64) }).collect();
        let end = if s.flag(100) { y.clone() } else { Term::Int(4) };
        let big = big_term(shape, n, &mut |i| el[i].clone(), end);
        let bind = Goal::Eq(y.clone(), Term::Int(val));
        if late_first {
            prefix.push(bind);
            prefix.push(Goal::Eq(x.clone(), big));
        } else {
            prefix.push(Goal::Eq(x.clone(), big));
            prefix.push(bind);
        }
        value_is_int = false;
    }
    let body = match body_kind {
        0 | 1 => vec![Goal::NonRel(NonRel::IsGroundTerm(x.clone()))],
        2 if value_is_int => vec![Goal::NonRel(NonRel::SqEq(x.clone(), q0.clone()))],
        3 if value_is_int => vec![Goal::NonRel(NonRel::AddConst(x.clone(), 2, q0.clone()))],
        4 => vec![Goal::NonRel(NonRel::IsGroundTerm(x.clone())), Goal::Eq(Term::Var(1), x.clone())],
        _ => vec![Goal::Closure(vec![Goal::NonRel(NonRel::IsGroundTerm(x.clone()))]), Goal::Eq(q0.clone(), Term::Int(1))],
    };
    let c = Case { prefix, vars: vec![X], body, after: vec![], fresh };
    if std::env::var("PVH_SHOW").is_ok() {
        eprintln!("SHOW {}", program(&c).show().chars().take(300).collect::<String>());
    }
    let mut info = eval(&c, ctx);
    truncate_sample(&mut info, 400);
    info.nontrivial = true;
    info.class(if template == 0 { "scale:alias-chain" } else { "scale:long-term-with-late-bound-variables" });
    info.class(if n >= 256 { "size>=256" } else if n >= 64 { "size>=64" } else if n >= 16 { "size>=16" } else { "size<16" });
    info
}

pub fn run_family_pub(bytes: &[u8], ctx: &Ctx) -> CaseInfo {
    run_family(bytes, ctx)
}

pub fn witness_pub() -> Option<String> {
    witness()
}

pub fn def() -> PropertyDef {
    PropertyDef {
        id: "C11",
        rule: "a prefix that makes 0-4 states reach `project |x| { body }` (x == k, member(x, [...]), conde, append-derived, partially ground list) optionally binding a second projected variable, bodies using the projected value non-relationally through fngoals (x*x, x+k, is-ground-integer), alone, in conjunction, inside conde or closure (resumed later), optionally followed by a disequality. Oracle: reference interpreter (project = evaluate the body on the walked value in that state), equal multisets, no panic. Non-trivial = the project goal is reached by >=2 states or the body is resumed later; distinct = hash of the printed program. Failures with >=2 reaching states are the listed finding C11-project-reached-twice; everything with one reaching state is checked without suppression. Family `scale` (one reaching state): the projected variable reaches its value through a chain of up to 400 (thorough 1000) aliases posted head-first / tail-first / shuffled, or is bound to a term with a spine of that many levels (six shapes) containing variables bound before or after; bodies test groundness of the projected value or compute with it",
        assumptions: vec!["reference interpreter correct"],
        families: vec![
            Family { name: "project", max_len: 64, quick: 100_000, thorough: 2_000_000, run: run_family },
            Family { name: "scale", max_len: 48, quick: 20_000, thorough: 200_000, run: run_scale },
        ],
        fixed: vec![Fixed { name: "reached-once-resumed-body", run: fixed_once }],
        witnesses: vec![Witness { finding: FINDING, run: witness }],
        exhaustive: None,
        exhaustive_in_quick: false,
        custom: None,
        custom_replay: None,
    }
}
