//! C18 — FiniteDomain operations implement set semantics (BTreeSet model).

use crate::framework::*;
use crate::guard::{guarded, Guarded};
use crate::source::{hash_str, Source};
use proto_vulcan::state::FiniteDomain;
use serde_json::json;
use std::collections::BTreeSet;

#[derive(Clone, Debug)]
pub enum DomSpec {
    Interval(isize, isize),
    /// built with From<Vec<isize>> from this (unsorted, possibly duplicated) vector
    SparseVec(Vec<isize>),
    /// built with From<&[isize]>
    SparseSlice(Vec<isize>),
}

impl DomSpec {
    pub fn build(&self) -> FiniteDomain {
        match self {
            DomSpec::Interval(a, b) => FiniteDomain::from(*a..=*b),
            DomSpec::SparseVec(v) => FiniteDomain::from(v.clone()),
            DomSpec::SparseSlice(v) => FiniteDomain::from(&v[..]),
        }
    }
    pub fn set(&self) -> BTreeSet<isize> {
        match self {
            DomSpec::Interval(a, b) => (*a..=*b).collect(),
            DomSpec::SparseVec(v) | DomSpec::SparseSlice(v) => v.iter().copied().collect(),
        }
    }
    pub fn has_dups(&self) -> bool {
        match self {
            DomSpec::Interval(..) => false,
            DomSpec::SparseVec(v) | DomSpec::SparseSlice(v) => {
                v.iter().collect::<BTreeSet<_>>().len() != v.len()
            }
        }
    }
    pub fn show(&self) -> String {
        match self {
            DomSpec::Interval(a, b) => format!("FiniteDomain::from({}..={})", a, b),
            DomSpec::SparseVec(v) => format!("FiniteDomain::from(vec!{:?})", v),
            DomSpec::SparseSlice(v) => format!("FiniteDomain::from(&{:?}[..])", v),
        }
    }
}

const LO: isize = -3;
const HI: isize = 4;

fn gen_dom(s: &mut Source) -> DomSpec {
    match s.weighted(&[3, 3, 2]) {
        0 => {
            let a = s.range(LO as i64, HI as i64) as isize;
            let b = s.range(a as i64, HI as i64) as isize;
            DomSpec::Interval(a, b)
        }
        k => {
            let n = 1 + s.below(6);
            let mut v = vec![];
            for _ in 0..n {
                v.push(s.range(LO as i64, HI as i64) as isize);
            }
            if k == 1 {
                DomSpec::SparseVec(v)
            } else {
                DomSpec::SparseSlice(v)
            }
        }
    }
}

fn denote(d: &FiniteDomain) -> Vec<isize> {
    d.iter().collect()
}

fn sorted(s: &BTreeSet<isize>) -> Vec<isize> {
    s.iter().copied().collect()
}

/// Check every operation of the pair (a, b) against the set model; returns the first
/// disagreement as (operation, expected, observed).
pub fn check_pair(a: &DomSpec, b: &DomSpec, t: isize, pred_mask: u16) -> Option<(String, String, String)> {
    let probes: Vec<isize> = ((LO - 1)..=(HI + 1)).collect();
    let p = |u: &isize| (pred_mask >> ((*u - LO) as u16)) & 1 == 1;
    check_pair_with(a, b, t, &p, &format!("mask {:#b}", pred_mask), &probes)
}

/// `pred` is an arbitrary predicate on elements, `probes` the values `contains` is asked about.
pub fn check_pair_with(a: &DomSpec, b: &DomSpec, t: isize, pred: &dyn Fn(&isize) -> bool, pred_desc: &str, probes: &[isize]) -> Option<(String, String, String)> {
    let da = a.build();
    let db = b.build();
    let sa = a.set();
    let sb = b.set();
    macro_rules! chk {
        ($op:expr, $exp:expr, $obs:expr) => {{
            let e = $exp;
            let o = $obs;
            if e != o {
                return Some(($op.to_string(), format!("{:?}", e), format!("{:?}", o)));
            }
        }};
    }
    // iteration both directions, into_iter
    chk!("a.iter()", sorted(&sa), denote(&da));
    chk!(
        "a.iter().rev()",
        sorted(&sa).into_iter().rev().collect::<Vec<_>>(),
        da.iter().rev().collect::<Vec<_>>()
    );
    chk!("a.clone().into_iter()", sorted(&sa), da.clone().into_iter().collect::<Vec<_>>());
    chk!(
        "a.clone().into_iter().rev()",
        sorted(&sa).into_iter().rev().collect::<Vec<_>>(),
        da.clone().into_iter().rev().collect::<Vec<_>>()
    );
    chk!("a.min()", *sa.iter().next().unwrap(), da.min());
    chk!("a.max()", *sa.iter().next_back().unwrap(), da.max());
    chk!("a.is_singleton()", sa.len() == 1, da.is_singleton());
    chk!(
        "a.singleton_value()",
        if sa.len() == 1 { sa.iter().next().copied() } else { None },
        da.singleton_value()
    );
    for k in probes.iter().copied() {
        chk!(format!("a.contains({})", k), sa.contains(&k), da.contains(k));
    }
    // binary operations, both argument orders are covered by calling check_pair(b, a) too
    let inter: BTreeSet<isize> = sa.intersection(&sb).copied().collect();
    chk!(
        "a.intersect(b)",
        if inter.is_empty() { None } else { Some(sorted(&inter)) },
        da.intersect(&db).map(|d| denote(&d))
    );
    let diff: BTreeSet<isize> = sa.difference(&sb).copied().collect();
    chk!(
        "a.diff(b)",
        if diff.is_empty() { None } else { Some(sorted(&diff)) },
        da.diff(&db).map(|d| denote(&d))
    );
    chk!("a.is_disjoint(b)", inter.is_empty(), da.is_disjoint(&db));
    chk!("a == b", sa == sb, da == db);
    chk!("a != b", sa != sb, da != db);
    // results of intersect/diff must themselves behave as sets
    if let Some(r) = da.intersect(&db) {
        chk!("a.intersect(b).is_singleton()", inter.len() == 1, r.is_singleton());
        chk!("a.intersect(b).min()", *inter.iter().next().unwrap(), r.min());
        chk!("a.intersect(b).max()", *inter.iter().next_back().unwrap(), r.max());
    }
    if let Some(r) = da.diff(&db) {
        chk!("a.diff(b).is_singleton()", diff.len() == 1, r.is_singleton());
        chk!("a.diff(b) == a.diff(b)", true, r == r.clone());
    }
    // thresholds used by the propagators
    let asort = sorted(&sa);
    let cb: Vec<isize> = asort.iter().copied().take_while(|u| !(t < *u)).collect();
    chk!(
        format!("a.copy_before(|u| {} < *u)", t),
        if cb.is_empty() { None } else { Some(cb) },
        da.copy_before(|u| t < *u).map(|d| denote(&d))
    );
    let dbf: Vec<isize> = asort.iter().copied().skip_while(|v| !(t <= *v)).collect();
    chk!(
        format!("a.drop_before(|v| {} <= *v)", t),
        if dbf.is_empty() { None } else { Some(dbf) },
        da.drop_before(|v| t <= *v).map(|d| denote(&d))
    );
    // arbitrary predicate given as a bit mask over the window
    let p = |u: &isize| pred(u);
    let cb: Vec<isize> = asort.iter().copied().take_while(|u| !p(u)).collect();
    chk!(
        format!("a.copy_before({})", pred_desc),
        if cb.is_empty() { None } else { Some(cb) },
        da.copy_before(p).map(|d| denote(&d))
    );
    let dbf: Vec<isize> = asort.iter().copied().skip_while(|u| !p(u)).collect();
    chk!(
        format!("a.drop_before({})", pred_desc),
        if dbf.is_empty() { None } else { Some(dbf) },
        da.drop_before(p).map(|d| denote(&d))
    );
    None
}

fn eval(a: &DomSpec, b: &DomSpec, t: isize, mask: u16, ctx: &Ctx) -> CaseInfo {
    let mut info = CaseInfo::default();
    let desc = format!("a = {}; b = {}; t = {}; mask = {:#b}", a.show(), b.show(), t, mask);
    info.key = hash_str(&desc);
    let (sa, sb) = (a.set(), b.set());
    let inter = sa.intersection(&sb).count();
    let partial = inter > 0 && (inter < sa.len() || inter < sb.len());
    info.nontrivial = partial;
    if matches!(a, DomSpec::Interval(..)) {
        info.class("a-interval");
    } else {
        info.class("a-sparse");
    }
    if matches!(b, DomSpec::Interval(..)) {
        info.class("b-interval");
    } else {
        info.class("b-sparse");
    }
    if a.has_dups() || b.has_dups() {
        info.class("duplicates-in-vector");
    }
    if inter == 0 {
        info.class("disjoint");
    } else if sa == sb {
        info.class("equal-sets");
    } else if sa.is_subset(&sb) || sb.is_subset(&sa) {
        info.class("strict-subset");
    } else {
        info.class("partial-overlap");
    }
    if ctx.want_sample {
        info.sample = Some(json!({"a": a.show(), "b": b.show(), "threshold": t, "pred_mask": mask,
            "a_set": sorted(&sa), "b_set": sorted(&sb)}));
    }
    for (x, y, tag) in [(a, b, "(a,b)"), (b, a, "(b,a)")] {
        match guarded(u64::MAX, || check_pair(x, y, t, mask)) {
            Guarded::Ok(None) => {}
            Guarded::Ok(Some((op, exp, obs))) => {
                let opk = op.split('(').next().unwrap_or(&op).to_string();
                info.fail(
                    format!("C18:{}", opk),
                    format!("{} order {}\n  operation {}: expected {} observed {}", desc, tag, op, exp, obs),
                );
            }
            Guarded::Panic(p) => {
                info.fail(
                    format!("C18:panic:{}", p.key()),
                    format!("{} order {}\n  panicked: {} at {}", desc, tag, p.message, p.location),
                );
            }
            Guarded::Budget(_) => {}
        }
    }
    info
}

fn run_window(bytes: &[u8], ctx: &Ctx) -> CaseInfo {
    let mut s = Source::new(bytes);
    let a = gen_dom(&mut s);
    let b = if s.flag(64) {
        // derived from a: sub/superset or shifted copy, to make overlap frequent
        let mut v: Vec<isize> = a.set().into_iter().collect();
        match s.below(3) {
            0 => {
                let k = s.below(v.len());
                v.remove(k);
                if v.is_empty() {
                    v.push(s.range(LO as i64, HI as i64) as isize);
                }
            }
            1 => v.push(s.range(LO as i64, HI as i64) as isize),
            _ => {}
        }
        if s.flag(128) {
            DomSpec::SparseVec(v)
        } else {
            let lo = *v.iter().min().unwrap();
            let hi = *v.iter().max().unwrap();
            DomSpec::Interval(lo, hi)
        }
    } else {
        gen_dom(&mut s)
    };
    let t = s.range((LO - 1) as i64, (HI + 1) as i64) as isize;
    let mask = ((s.byte() as u16) << 8 | s.byte() as u16) & 0xff;
    eval(&a, &b, t, mask, ctx)
}

// ---- large domains: tens to hundreds of elements, also far away from zero ---------------------

fn gen_large(s: &mut Source, base: isize, cap: usize) -> DomSpec {
    let n = crate::gen::scale::size(s, cap) as isize;
    match s.weighted(&[3, 3, 2]) {
        0 => {
            let a = base + s.range(-20, 60) as isize;
            DomSpec::Interval(a, a + n - 1)
        }
        k => {
            // arithmetic progression with a few holes, extras, duplicates, possibly unsorted
            let stride = 1 + s.below(6) as isize;
            let start = base + s.range(-20, 60) as isize;
            let mut v: Vec<isize> = (0..n).map(|i| start + i * stride).collect();
            let holes = s.below(4);
            for _ in 0..holes {
                if v.len() > 1 {
                    let i = s.below(v.len());
                    v.remove(i);
                }
            }
            let extras = s.below(3);
            for _ in 0..extras {
                v.push(base + s.range(-30, 400) as isize);
            }
            if s.flag(60) {
                v.reverse();
            }
            if s.flag(40) {
                let i = s.below(v.len());
                v.push(v[i]);
            }
            if k == 1 {
                DomSpec::SparseVec(v)
            } else {
                // From<&[isize]> is documented for sorted input in the suite's uses: keep it sorted
                v.sort();
                DomSpec::SparseSlice(v)
            }
        }
    }
}

fn run_large(bytes: &[u8], ctx: &Ctx) -> CaseInfo {
    let mut s = Source::new(bytes);
    let base: isize = match s.weighted(&[5, 2, 1, 1]) {
        0 => 0,
        1 => 1_000_000_007,
        2 => isize::MAX - 20_000,
        _ => isize::MIN + 200,
    };
    let cap = if ctx.tier == Tier::Thorough { 2000 } else { 300 };
    let a = gen_large(&mut s, base, cap);
    let b = if s.flag(90) {
        // derived from a: drop / add an element, or its hull as an interval, or a sub-range
        let mut v: Vec<isize> = a.set().into_iter().collect();
        match s.below(4) {
            0 => {
                let k = s.below(v.len());
                v.remove(k);
                if v.is_empty() {
                    v.push(base);
                }
                DomSpec::SparseVec(v)
            }
            1 => {
                v.push(base + s.range(-30, 400) as isize);
                DomSpec::SparseVec(v)
            }
            2 => DomSpec::Interval(v[0], *v.last().unwrap()),
            _ => {
                // an interval strictly inside the hull, between two members where possible
                let i = s.below(v.len());
                let j = i + s.below(v.len() - i);
                let lo = v[i] + if s.flag(128) { 1 } else { 0 };
                let hi = (v[j] - if s.flag(128) { 1 } else { 0 }).max(lo);
                DomSpec::Interval(lo, hi)
            }
        }
    } else {
        gen_large(&mut s, base, cap)
    };
    let (sa, sb) = (a.set(), b.set());
    let all: Vec<isize> = sa.union(&sb).copied().collect();
    let t = all[s.below(all.len())] + s.range(-1, 1) as isize;
    let m = 2 + s.below(9) as isize;
    let r = s.below(m as usize) as isize;
    let pred = move |u: &isize| (*u).rem_euclid(m) == r;
    let pred_desc = format!("|u| u.rem_euclid({}) == {}", m, r);
    // probes: members, their neighbours, and the ends
    let mut probes: Vec<isize> = vec![];
    for _ in 0..12 {
        let x = all[s.below(all.len())];
        probes.extend([x.saturating_sub(1), x, x.saturating_add(1)]);
    }
    probes.extend([all[0].saturating_sub(1), *all.last().unwrap(), all.last().unwrap().saturating_add(1)]);
    let mut info = CaseInfo::default();
    let desc = format!("a = {}; b = {}; t = {}; pred = {}", a.show(), b.show(), t, pred_desc);
    info.key = hash_str(&desc);
    let inter = sa.intersection(&sb).count();
    info.nontrivial = inter > 0 && (inter < sa.len() || inter < sb.len());
    let big = sa.len().max(sb.len());
    info.class(if big >= 256 { "elements>=256" } else if big >= 33 { "elements>=33" } else if big >= 9 { "elements>=9" } else { "elements<9" });
    info.class(if base == 0 { "near-zero" } else { "far-from-zero" });
    if matches!(a, DomSpec::Interval(..)) != matches!(b, DomSpec::Interval(..)) {
        info.class("interval-with-sparse");
    }
    if ctx.want_sample {
        let cut = |x: String| if x.len() > 300 { format!("{} ... ({} chars)", &x[..300], x.len()) } else { x };
        info.sample = Some(json!({"a": cut(a.show()), "b": cut(b.show()), "threshold": t, "pred": pred_desc}));
    }
    for (x, y, tag) in [(&a, &b, "(a,b)"), (&b, &a, "(b,a)")] {
        match guarded(u64::MAX, || check_pair_with(x, y, t, &pred, &pred_desc, &probes)) {
            Guarded::Ok(None) => {}
            Guarded::Ok(Some((op, exp, obs))) => {
                let opk = op.split('(').next().unwrap_or(&op).to_string();
                info.fail(format!("C18:{}", opk), format!("{} order {}\n  operation {}: expected {} observed {}", desc, tag, op, exp, obs));
            }
            Guarded::Panic(p) => {
                info.fail(format!("C18:panic:{}", p.key()), format!("{} order {}\n  panicked: {} at {}", desc, tag, p.message, p.location));
            }
            Guarded::Budget(_) => {}
        }
    }
    info
}

// ---- extreme bounds: only O(1) operations ------------------------------------------------

const EXT: [isize; 9] = [
    isize::MIN,
    isize::MIN + 1,
    -2,
    -1,
    0,
    1,
    2,
    isize::MAX - 1,
    isize::MAX,
];

fn run_extreme(bytes: &[u8], ctx: &Ctx) -> CaseInfo {
    let mut s = Source::new(bytes);
    let mut pick2 = |s: &mut Source| {
        let i = s.below(EXT.len());
        let j = i + s.below(EXT.len() - i);
        (EXT[i], EXT[j])
    };
    let (a0, a1) = pick2(&mut s);
    let (b0, b1) = pick2(&mut s);
    let k = EXT[s.below(EXT.len())];
    let desc = format!("a = {}..={}; b = {}..={}; k = {}", a0, a1, b0, b1, k);
    let mut info = CaseInfo::default();
    info.key = hash_str(&desc);
    info.nontrivial = a0 == isize::MIN || a1 == isize::MAX || b0 == isize::MIN || b1 == isize::MAX;
    info.class("extreme-interval");
    if ctx.want_sample {
        info.sample = Some(json!({"a": format!("{}..={}", a0, a1), "b": format!("{}..={}", b0, b1), "k": k}));
    }
    let r = guarded(u64::MAX, || -> Option<(String, String, String)> {
        let da = FiniteDomain::from(a0..=a1);
        let db = FiniteDomain::from(b0..=b1);
        macro_rules! chk {
            ($op:expr, $exp:expr, $obs:expr) => {{
                let e = $exp;
                let o = $obs;
                if e != o {
                    return Some(($op.to_string(), format!("{:?}", e), format!("{:?}", o)));
                }
            }};
        }
        chk!("a.is_singleton()", a0 == a1, da.is_singleton());
        chk!("a.singleton_value()", if a0 == a1 { Some(a0) } else { None }, da.singleton_value());
        chk!("a.min()", a0, da.min());
        chk!("a.max()", a1, da.max());
        chk!("a.contains(k)", a0 <= k && k <= a1, da.contains(k));
        let lo = a0.max(b0);
        let hi = a1.min(b1);
        let exp = if lo <= hi { Some((lo, hi)) } else { None };
        chk!("a.intersect(b)", exp, da.intersect(&db).map(|d| (d.min(), d.max())));
        if let Some(r) = da.intersect(&db) {
            chk!("a.intersect(b).is_singleton()", lo == hi, r.is_singleton());
        }
        // predicate true at the very first element: O(1)
        chk!("a.copy_before(|_| true)", None::<(isize, isize)>, da.copy_before(|_| true).map(|d| (d.min(), d.max())));
        chk!("a.drop_before(|_| true)", Some((a0, a1)), da.drop_before(|_| true).map(|d| (d.min(), d.max())));
        if lo > hi {
            // guaranteed O(1) through the early exit on bounds only when the hulls are disjoint
            chk!("a.is_disjoint(b)", true, da.is_disjoint(&db));
        }
        None
    });
    match r {
        Guarded::Ok(None) => {}
        Guarded::Ok(Some((op, exp, obs))) => info.fail(
            format!("C18:extreme:{}", op.split('(').next().unwrap_or(&op)),
            format!("{}\n  operation {}: expected {} observed {}", desc, op, exp, obs),
        ),
        Guarded::Panic(p) => info.fail(
            format!("C18:extreme:panic:{}", p.key()),
            format!("{}\n  panicked: {} at {}", desc, p.message, p.location),
        ),
        Guarded::Budget(_) => {}
    }
    info
}

// ---- exhaustive: all pairs of non-empty subsets of a 6-value window × 4 representations ----

fn exhaustive(ctx: &Ctx, emit: Emit) -> String {
    let window: Vec<isize> = (-2..=3).collect();
    let subsets: Vec<Vec<isize>> = (1u32..64)
        .map(|m| window.iter().enumerate().filter(|(i, _)| (m >> i) & 1 == 1).map(|(_, v)| *v).collect())
        .collect();
    let reps = |v: &Vec<isize>| -> Vec<DomSpec> {
        let mut out = vec![];
        let lo = v[0];
        let hi = *v.last().unwrap();
        if (hi - lo + 1) as usize == v.len() {
            out.push(DomSpec::Interval(lo, hi));
        }
        out.push(DomSpec::SparseSlice(v.clone()));
        let mut r = v.clone();
        r.reverse();
        out.push(DomSpec::SparseVec(r)); // unsorted vector
        out
    };
    let quiet = Ctx { want_sample: false, ..*ctx };
    for a in &subsets {
        for b in &subsets {
            for ra in reps(a) {
                for rb in reps(b) {
                    for t in [-3isize, 0, 2, 4] {
                        emit(eval(&ra, &rb, t, 0b010100, &quiet));
                    }
                }
            }
        }
    }
    "all 63x63 pairs of non-empty subsets of {-2..3} in every representation (interval where contiguous, sorted slice, reversed vector) x 4 thresholds".to_string()
}

fn fixed_examples(ctx: &Ctx) -> CaseInfo {
    // the example of the property text: 1..=3 == 1..=5 must be false
    eval(&DomSpec::Interval(1, 3), &DomSpec::Interval(1, 5), 2, 0, ctx)
}

fn fixed_dups(ctx: &Ctx) -> CaseInfo {
    eval(&DomSpec::SparseVec(vec![2, 1, 2]), &DomSpec::SparseVec(vec![1, 2]), 1, 0, ctx)
}

fn fixed_extreme(ctx: &Ctx) -> CaseInfo {
    let mut bytes = vec![0u8, 255, 0, 255, 0];
    bytes[0] = 0;
    run_extreme(&bytes, ctx)
}

pub fn def() -> PropertyDef {
    PropertyDef {
        id: "C18",
        rule: "pairs of FiniteDomain values over the window -3..=4 (interval, From<Vec> from unsorted/duplicated vectors, From<&[isize]>), second domain derived from the first with weight 1/4; every public operation compared with a BTreeSet model in both argument orders; plus intervals with extreme isize bounds (O(1) operations only). Non-trivial = the two denoted sets overlap partially or one is a strict subset of the other (window family), or a bound is isize::MIN/MAX (extreme family); distinct = hash of the printed case. Family `large`: domains of up to 300 (thorough 2000) elements - intervals and arithmetic progressions with holes, extras, duplicates, unsorted input - placed near 0, near 10^9, near isize::MAX and near isize::MIN; the second domain is independent or derived (element removed/added, hull interval, an interval strictly between two members); predicates are residue classes, `contains` is probed at members and their neighbours",
        assumptions: vec![
            "domains are non-empty (From<Vec> panics on an empty vector; empty RangeInclusive is not generated)",
            "copy_before/drop_before follow take_while/skip_while semantics on the ascending element sequence for arbitrary predicates",
        ],
        families: vec![
            Family { name: "window", max_len: 24, quick: 3_000_000, thorough: 60_000_000, run: run_window },
            Family { name: "extreme", max_len: 8, quick: 200_000, thorough: 2_000_000, run: run_extreme },
            Family { name: "large", max_len: 96, quick: 200_000, thorough: 3_000_000, run: run_large },
        ],
        fixed: vec![
            Fixed { name: "eq-is-subset-example", run: fixed_examples },
            Fixed { name: "duplicated-vector", run: fixed_dups },
            Fixed { name: "extreme-min-max", run: fixed_extreme },
        ],
        witnesses: vec![],
        exhaustive: Some(exhaustive),
        exhaustive_in_quick: false,
        custom: None,
        custom_replay: None,
    }
}
