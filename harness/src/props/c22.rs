//! C22 — user extension hooks observe a consistent constraint lifecycle.

use crate::ast::{Goal, Program, Term};
use crate::build::HOOK_VIOLATIONS;
use crate::framework::*;
use crate::gen::tree::{gen_program, TreeCfg};
use crate::model::interp;
use crate::oracle;
use crate::run::{self, Limits, Mode};
use crate::source::{hash_str, Source};
use serde_json::json;

/// Insert a probe after every goal of every goal list.
pub fn add_probes(p: &Program) -> Program {
    fn go(gs: &[Goal], next: &mut u32) -> Vec<Goal> {
        let mut out = vec![];
        for g in gs {
            let g2 = match g {
                Goal::Conj(b) => Goal::Conj(go(b, next)),
                Goal::Fresh(v, b) => Goal::Fresh(v.clone(), go(b, next)),
                Goal::Conde(c) => Goal::Conde(c.iter().map(|b| go(b, next)).collect()),
                g => g.clone(),
            };
            out.push(g2);
            out.push(Goal::Probe(*next));
            *next += 1;
        }
        out
    }
    let mut n = 0;
    Program { nq: p.nq, body: go(&p.body, &mut n) }
}

pub fn eval(p0: &Program, tree: bool, ctx: &Ctx) -> CaseInfo {
    let p = add_probes(p0);
    let mut info = CaseInfo::default();
    let desc = p0.show();
    info.key = hash_str(&desc);
    HOOK_VIOLATIONS.with(|h| h.borrow_mut().clear());
    let (out, users) = run::run_collect_user(&p, Mode::Bfs, Limits::all(), true, tree);
    if ctx.want_sample {
        info.sample = Some(json!({ "program": desc, "answers": run::show_answers(&out.answers),
            "final_user_states(with,take,stored,ext_calls,trace)": users.iter().map(|(u, st)| json!([u.with, u.take, st, u.ext_calls, u.trace_vec()])).collect::<Vec<_>>() }));
    }
    if let Some((why, pi)) = oracle::describe_end(&out) {
        if let Some(pi) = pi {
            info.fail(format!("C22:panic:{}", pi.key()), format!("{}\n  panicked: {} at {}", desc, pi.message, pi.location));
            return info;
        }
        return CaseInfo { skip: Some(why), ..info };
    }
    let any_take = users.iter().any(|(u, _)| u.take > 0);
    info.nontrivial = out.ctx.max_stored.get() >= 2 && any_take;
    if out.ctx.max_stored.get() >= 2 {
        info.class("two-or-more-constraints-stored-at-a-probe");
    }
    if any_take {
        info.class("constraint-removed-or-replaced");
    }
    // lifecycle balance at every probe (also on branches that failed later) and at the end
    if let Some(v) = out.ctx.lifecycle.borrow().first() {
        let sig = if v.contains("process_extension logged") { "C22:extension-log-differs-from-substitution" } else { "C22:with-take-balance" };
        info.fail(sig, format!("{}\n  {}", desc, v));
        return info;
    }
    for (u, stored) in &users {
        if u.with - u.take != *stored as i64 {
            info.fail("C22:with-take-balance", format!("{}\n  final state: with_constraint={} take_constraint={} stored={}", desc, u.with, u.take, stored));
            return info;
        }
    }
    let hv = HOOK_VIOLATIONS.with(|h| h.borrow().first().cloned());
    if let Some(v) = hv {
        info.fail("C22:process-extension-bindings", format!("{}\n  {}", desc, v));
        return info;
    }
    // path traces and process_extension call counts against the reference path
    if tree {
        match interp::answers(&p, oracle::REF_FUEL) {
            Ok(rs) => {
                let mut want: Vec<(Vec<Term>, Vec<u32>, i64)> = rs
                    .iter()
                    .map(|r| {
                        let a = crate::canon::from_ref(r);
                        // +1: the query's own `__query__ == [q…]` unification
                        (a.terms, r.trace.clone(), r.eqs as i64 + 1)
                    })
                    .collect();
                let mut got: Vec<(Vec<Term>, Vec<u32>, i64)> = out.answers.iter().zip(users.iter()).map(|(a, (u, _))| (a.terms.clone(), u.trace_vec(), u.ext_calls)).collect();
                want.sort();
                got.sort();
                if want != got {
                    info.fail(
                        "C22:trace-or-extension-count-differs",
                        format!("{}\n  (answer, probe trace, process_extension calls) per answer\n  implementation: {:?}\n  reference:      {:?}", desc, got, want),
                    );
                }
            }
            Err(_) => return CaseInfo { skip: Some("ref-skip"), ..info },
        }
    }
    info
}

fn run_tree(bytes: &[u8], ctx: &Ctx) -> CaseInfo {
    let mut s = Source::new(bytes);
    let p = gen_program(&mut s, &TreeCfg::c02());
    eval(&p, true, ctx)
}

fn run_fd(bytes: &[u8], ctx: &Ctx) -> CaseInfo {
    // CLP(FD) programs: constraints are taken, re-run and re-added during propagation, also in
    // nested run_constraints calls when a domain collapses to a single value
    let mut s = Source::new(bytes);
    let mut cfg = crate::gen::fd::FdCfg::full();
    cfg.max_constraints = 6;
    let c = crate::gen::fd::gen_case(&mut s, &cfg);
    let p = c.program();
    eval(&p, false, ctx)
}

/// Lifecycle with hundreds of constraints in the store (subsumption events included) and with
/// wide finite domains.
fn run_scale(bytes: &[u8], ctx: &Ctx) -> CaseInfo {
    let mut s = Source::new(bytes);
    let thorough = ctx.tier == Tier::Thorough;
    let (p, tree, label) = if s.flag(150) {
        (crate::props::c02::decode_scale(&mut s, thorough), true, "scale:many-disequalities")
    } else {
        (crate::gen::fd::gen_case_wide(&mut s, thorough).program(), false, "scale:wide-domains")
    };
    let mut info = eval(&p, tree, ctx);
    truncate_sample(&mut info, 400);
    info.class(label);
    info
}

/// Constraints that become duplicates of (or subsumed by) one another only once a variable nested
/// inside them is bound by a later unification: `x != [a], a == 1, x != [1]`. Normalisation then
/// happens late (when the constraints are re-run or deep-walked at reification) and every
/// constraint it drops must still be reported through take_constraint.
fn run_late_duplicates(bytes: &[u8], ctx: &Ctx) -> CaseInfo {
    use crate::ast::{Kind, VarId};
    let mut s = Source::new(bytes);
    let nq = 2;
    let (a, b) = (Term::Var(2), Term::Var(3));
    let qv = |s: &mut Source| Term::Var(s.below(nq) as VarId);
    let mut goals: Vec<Goal> = vec![];
    let k = 1 + s.below(3);
    for _ in 0..k {
        let x = qv(&mut s);
        let inner = if s.flag(128) { a.clone() } else { b.clone() };
        let c = Term::Int(s.range(0, 2));
        let shape = s.below(5);
        let build = |v: &Term| -> Term {
            match shape {
                0 => Term::list(vec![v.clone()]),
                1 => Term::list(vec![Term::Int(1), v.clone()]),
                2 => Term::Cmp(Kind::Pair, vec![v.clone(), Term::Int(0)]),
                3 => Term::cons(v.clone(), Term::Nil),
                _ => Term::list(vec![Term::list(vec![v.clone()])]),
            }
        };
        let d1 = Goal::Diseq(x.clone(), build(&inner));
        let d2 = if s.flag(200) { Goal::Diseq(x.clone(), build(&c)) } else { Goal::Diseq(build(&c), x.clone()) };
        let e = if s.flag(128) { Goal::Eq(inner.clone(), c.clone()) } else { Goal::Eq(c.clone(), inner.clone()) };
        let trio = match s.weighted(&[3, 2, 2, 1]) {
            0 => vec![d1, e, d2],
            1 => vec![d1, d2, e],
            2 => vec![d2, d1, e],
            _ => vec![e, d1, d2],
        };
        goals.extend(trio);
    }
    // unrelated goals in between
    let extra = s.below(3);
    for _ in 0..extra {
        let g = match s.below(3) {
            0 => Goal::Diseq(qv(&mut s), Term::Int(s.range(0, 3))),
            1 => Goal::Eq(qv(&mut s), Term::list(vec![Term::Int(s.range(0, 2))])),
            _ => Goal::Conde(vec![vec![Goal::Eq(qv(&mut s), Term::Int(7))], vec![Goal::Succeed]]),
        };
        let at = s.below(goals.len() + 1);
        goals.insert(at, g);
    }
    let p = Program { nq, body: vec![Goal::Fresh(vec![2, 3], goals)] };
    let mut info = eval(&p, true, ctx);
    info.class("late-duplicates");
    info
}

fn fixed_example(ctx: &Ctx) -> CaseInfo {
    // x != 5, [x, y] != [5, 6], [x, y] != [5, 6]   (property text)
    let (x, y) = (Term::Var(0), Term::Var(1));
    let d = Goal::Diseq(Term::list(vec![x.clone(), y.clone()]), Term::ints(&[5, 6]));
    let p = Program { nq: 2, body: vec![Goal::Diseq(x.clone(), Term::Int(5)), d.clone(), d] };
    eval(&p, true, ctx)
}

fn fixed_replace(ctx: &Ctx) -> CaseInfo {
    // weaker first, then the stronger one replaces it, then a binding simplifies
    let (x, y) = (Term::Var(0), Term::Var(1));
    let p = Program {
        nq: 2,
        body: vec![
            Goal::Diseq(Term::list(vec![x.clone(), y.clone()]), Term::ints(&[5, 6])),
            Goal::Diseq(x.clone(), Term::Int(5)),
            Goal::Conde(vec![vec![Goal::Eq(y.clone(), Term::Int(6))], vec![Goal::Eq(x.clone(), Term::Int(4))], vec![Goal::Eq(x.clone(), Term::Int(5))]]),
        ],
    };
    eval(&p, true, ctx)
}

pub fn def() -> PropertyDef {
    PropertyDef {
        id: "C22",
        rule: "family T programs (==, !=, conde, fresh, subsuming-pair motif) and FD programs run with an instrumented User type; a probe fngoal is inserted after every goal of every goal list. Invariants: at every probe (also on branches that fail later), at the end of the body and after reification with_constraint calls - take_constraint calls = constraints in the store; every binding passed to process_extension is in the state's substitution; for tree programs the number of logged bindings equals the size of the substitution, and per answer (probe trace, number of process_extension calls) equals the reference interpreter's (path, successful == goals + 1). Non-trivial = >=2 constraints stored at some probe and >=1 take_constraint call; distinct = hash of the printed program",
        assumptions: vec!["reference interpreter is correct (used for traces and extension counts only; the balance invariants need no reference)"],
        families: vec![
            Family { name: "tree", max_len: 160, quick: 120_000, thorough: 3_000_000, run: run_tree },
            Family { name: "fd", max_len: 160, quick: 100_000, thorough: 2_000_000, run: run_fd },
            Family { name: "scale", max_len: 96, quick: 6_000, thorough: 60_000, run: run_scale },
            Family { name: "late-duplicates", max_len: 64, quick: 60_000, thorough: 1_000_000, run: run_late_duplicates },
        ],
        fixed: vec![Fixed { name: "property-text-example", run: fixed_example }, Fixed { name: "weaker-then-stronger-then-binding", run: fixed_replace }],
        witnesses: vec![],
        exhaustive: None,
        exhaustive_in_quick: false,
        custom: None,
        custom_replay: None,
    }
}
