//! C05 — depth-first search yields answers in Prolog order.

use crate::ast::{Goal, Program, Term, VarId};
use crate::canon::{self, Cmp};
use crate::framework::*;
use crate::gen::search::{gen_program, SearchCfg};
use crate::oracle::{self, RefResult};
use crate::run::{self, Answer, Limits, Mode};
use crate::source::{hash_str, Source};
use serde_json::json;

pub const FINDING_REIFY: &str = "C05-reify-overtakes";

/// cons-structure of a term with every leaf (atoms, variables, compounds) replaced by `*`:
/// the cost of the final reification depends on exactly this shape.
fn shape(t: &Term, out: &mut String) {
    match t {
        Term::Cons(h, tl) => {
            out.push('(');
            shape(h, out);
            out.push('.');
            shape(tl, out);
            out.push(')');
        }
        _ => out.push('*'),
    }
}

fn shape_of(a: &Answer, n: usize) -> String {
    let mut s = String::new();
    for t in a.terms.iter().take(n) {
        shape(t, &mut s);
        s.push(',');
    }
    s
}

fn strip(a: &Answer, n: usize) -> (Answer, Option<i64>) {
    let ticket = match a.terms.get(n) {
        Some(Term::Int(i)) => Some(*i),
        _ => None,
    };
    (Answer { terms: a.terms[..n].to_vec(), cons: a.cons.clone() }, ticket)
}

/// `p.nq` includes one reserved query variable (the last) for the ticket.
pub fn eval(p: &Program, ctx: &Ctx) -> CaseInfo {
    eval_with(p, ctx, 60)
}

pub fn eval_with(p: &Program, ctx: &Ctx, max_ref: usize) -> CaseInfo {
    let n = p.nq - 1;
    let tv = n as VarId;
    let plain = Program { nq: n, body: p.body.clone() };
    let mut with_ticket = p.clone();
    with_ticket.body.push(Goal::Ticket(Term::Var(tv)));
    let mut info = CaseInfo::default();
    let desc = format!("dfs {{ {} }}", plain.show());
    info.key = hash_str(&desc);
    let reference = match oracle::reference_answers(&plain) {
        RefResult::Answers(a) => a,
        RefResult::Skip(w) => return CaseInfo { skip: Some(w), ..info },
    };
    if reference.len() > max_ref {
        return CaseInfo::skip("too-many-answers");
    }
    let out = run::run(&with_ticket, Mode::Dfs, Limits { max_answers: 500.max(2 * max_ref), budget: 3_000_000.max(20_000 * max_ref as u64) });
    if ctx.want_sample {
        info.sample = Some(json!({ "program": desc, "iterator_order(last component = ticket)": run::show_answers(&out.answers), "reference_order": run::show_answers(&reference) }));
    }
    if let Some((why, pi)) = oracle::describe_end(&out) {
        if let Some(pi) = pi {
            info.fail(format!("C05:panic:{}", pi.key()), format!("{}\n  panicked: {} at {}", desc, pi.message, pi.location));
            return info;
        }
        return CaseInfo { skip: Some(why), ..info };
    }
    let u = canon::universe(&[&plain], &[], canon::count_diseqs(&plain) + 2, 9);
    let stripped: Vec<(Answer, Option<i64>)> = out.answers.iter().map(|a| strip(a, n)).collect();
    // (a) engine level: ticket order
    let mut by_ticket = stripped.clone();
    by_ticket.sort_by_key(|(_, t)| t.unwrap_or(i64::MAX));
    let tickets: Vec<Option<i64>> = by_ticket.iter().map(|(_, t)| *t).collect();
    let expect_t: Vec<Option<i64>> = (0..reference.len() as i64).map(Some).collect();
    let mut engine_ok = tickets == expect_t;
    let mut too_big = false;
    if engine_ok {
        for ((a, _), r) in by_ticket.iter().zip(reference.iter()) {
            match canon::equiv(a, r, &u) {
                Cmp::Equal => {}
                Cmp::Different => {
                    engine_ok = false;
                    break;
                }
                Cmp::TooBig => too_big = true,
            }
        }
    }
    if !engine_ok {
        info.fail(
            "C05:dfs-order",
            format!(
                "{}\n  answers in the order in which states left the dfs block (ticket order): {}\n  reference (Prolog) order: {}",
                desc,
                run::show_answers(&by_ticket.iter().map(|(a, _)| a.clone()).collect::<Vec<_>>()),
                run::show_answers(&reference)
            ),
        );
        return info;
    }
    if too_big {
        return CaseInfo { skip: Some("too-big"), ..info };
    }
    // (b) iterator level
    let mut iter_ok = true;
    for ((a, _), r) in stripped.iter().zip(reference.iter()) {
        if canon::equiv(a, r, &u) != Cmp::Equal {
            iter_ok = false;
            break;
        }
    }
    let shapes: std::collections::BTreeSet<String> = reference.iter().map(|a| shape_of(a, n)).collect();
    let uniform = shapes.len() <= 1;
    if uniform {
        info.class("answers-of-uniform-shape");
    } else {
        info.class("answers-of-mixed-shape");
    }
    if !iter_ok {
        if !uniform && !ctx.strict && finding_is_open(FINDING_REIFY) {
            info.known.push(FINDING_REIFY);
        } else {
            info.fail(
                if uniform { "C05:iterator-order" } else { "C05:iterator-order-mixed-shapes" },
                format!("{}\n  iterator order: {}\n  reference (Prolog) order: {}\n  (the order in which states left the dfs block is correct)", desc, run::show_answers(&stripped.iter().map(|(a, _)| a.clone()).collect::<Vec<_>>()), run::show_answers(&reference)),
            );
            return info;
        }
    }
    // non-trivial: >= 3 answers and the interleaving search visits them in another order
    if reference.len() >= 3 {
        let outb = run::run(&with_ticket, Mode::Bfs, Limits { max_answers: 500.max(2 * max_ref), budget: 3_000_000.max(20_000 * max_ref as u64) });
        if outb.complete() {
            let mut bt: Vec<(Answer, Option<i64>)> = outb.answers.iter().map(|a| strip(a, n)).collect();
            bt.sort_by_key(|(_, t)| t.unwrap_or(i64::MAX));
            let same = bt.len() == reference.len() && bt.iter().zip(reference.iter()).all(|((a, _), r)| canon::equiv(a, r, &u) == Cmp::Equal);
            if !same {
                info.nontrivial = true;
                info.class("order-differs-from-interleaving");
            }
        }
    }
    if plain.body.iter().any(|g| g.any(&|x| matches!(x, Goal::Call(..)))) {
        info.class("recursive-relation");
    }
    if plain.body.iter().any(|g| g.any(&|x| matches!(x, Goal::Closure(..)))) {
        info.class("closure");
    }
    info
}

fn cfg() -> SearchCfg {
    let mut c = SearchCfg::dfs();
    c.reserved_q = 1;
    c
}

fn run_family(bytes: &[u8], ctx: &Ctx) -> CaseInfo {
    let mut s = Source::new(bytes);
    let p = gen_program(&mut s, &cfg());
    // a quarter of the cases each is built with the constructor functions of the public API
    // (DFSDisj::from_conjunctions / DFSConj::from_vec, or pairwise DFSDisj::new / DFSConj::new)
    // instead of the operators the macros expand to: the depth-first order must be the same
    let mode = match bytes.iter().map(|b| *b as u32).sum::<u32>() % 4 {
        0 => 1,
        1 => 2,
        _ => 0,
    };
    let mut info = crate::build::with_api_mode(mode, || eval(&p, ctx));
    if mode != 0 {
        info.class("built-with-constructor-functions");
    }
    info
}

fn run_scale(bytes: &[u8], ctx: &Ctx) -> CaseInfo {
    let mut s = Source::new(bytes);
    let thorough = ctx.tier == Tier::Thorough;
    let p = crate::gen::scale::search_program(&mut s, thorough, 1);
    if std::env::var("PVH_SHOW").is_ok() {
        eprintln!("SHOW {}", p.show());
    }
    let t0 = std::time::Instant::now();
    let mut info = eval_with(&p, ctx, 4 * crate::gen::scale::cap(thorough) + 16);
    if std::env::var("PVH_SLOW").is_ok() && t0.elapsed().as_millis() > 500 {
        let d: String = p.show().chars().take(160).collect();
        eprintln!("SLOW {:?} goals={} {}", t0.elapsed(), p.goal_count(), d);
    }
    truncate_sample(&mut info, 600);
    let g = p.goal_count();
    info.class(if g >= 256 { "goals>=256" } else if g >= 64 { "goals>=64" } else { "goals<64" });
    info
}

fn w_reify() -> Option<String> {
    // dfs { cond { q == [1..12], q == 1, q == 2 } }
    let big = Term::ints(&(1..=12).collect::<Vec<i64>>());
    let p = Program { nq: 2, body: vec![Goal::Conde(vec![vec![Goal::Eq(Term::Var(0), big)], vec![Goal::Eq(Term::Var(0), Term::Int(1))], vec![Goal::Eq(Term::Var(0), Term::Int(2))]])] };
    let strict = Ctx { tier: Tier::Quick, strict: true, want_sample: false };
    let info = eval(&p, &strict);
    info.failure.filter(|f| f.signature == "C05:iterator-order-mixed-shapes").map(|_| "dfs { cond { q == [1..12], q == 1, q == 2 } } yields 1, 2, [1..12] at the iterator (reification under the BFS top level overtakes); the order in which states leave the dfs block is correct".to_string())
}

fn fixed_nested(ctx: &Ctx) -> CaseInfo {
    // dfs { cond { member(q, [1,2,3]), append(q, r, [1,2]) }, cond { r == 1, r == [2], true } }
    let (q, r) = (Term::Var(0), Term::Var(1));
    let p = Program {
        nq: 3,
        body: vec![
            Goal::Conde(vec![vec![Goal::Call(crate::ast::Rel::Member, vec![q.clone(), Term::ints(&[1, 2, 3])])], vec![Goal::Call(crate::ast::Rel::Append, vec![q.clone(), r.clone(), Term::ints(&[1, 2])])]]),
            Goal::Conde(vec![vec![Goal::Eq(r.clone(), Term::Int(1))], vec![Goal::Eq(r.clone(), Term::ints(&[2]))], vec![Goal::Succeed]]),
        ],
    };
    eval(&p, ctx)
}

pub fn def() -> PropertyDef {
    PropertyDef {
        id: "C05",
        rule: "family S programs (nested cond/conjunction/fresh/closure, ==/!=, member/member1/append/rember/permute/distinct and harness recursive relations on literal lists; finite search tree by construction) wrapped in dfs{} with a ticket fngoal as last goal of the block. Oracle: reference depth-first interpreter, position by position: (a) the answer carrying ticket i equals the reference's i-th answer and tickets are 0..n-1 (order in which states leave the depth-first block), (b) the iterator yields the same order (suppressed only for the listed finding C05-reify-overtakes, and only when answers differ in cons-shape and (a) holds). Non-trivial = >=3 answers and the same program under interleaving search produces another ticket order; distinct = hash of the printed program. Family `scale`: one disjunction of up to 400 (thorough 1000) clauses, up to 200 consecutive binary choice points pruned by constraints, or member / memberrev (recursive clause first) / append / zeros (non-tail recursion) / member1 / lenle / rember / downfrom / nrev over a literal list of up to 400 elements, alone, next to a small choice, or as one branch of a disjunction",
        assumptions: vec!["reference interpreter and its mirrored relation definitions are correct", "answers compared up to renaming and constraint equivalence over a finite universe"],
        families: vec![
            Family { name: "search-dfs", max_len: 200, quick: 400_000, thorough: 8_000_000, run: run_family },
            Family { name: "scale", max_len: 48, quick: 6_000, thorough: 60_000, run: run_scale },
        ],
        fixed: vec![Fixed { name: "nested-cond-member-append", run: fixed_nested }],
        witnesses: vec![Witness { finding: FINDING_REIFY, run: w_reify }],
        exhaustive: None,
        exhaustive_in_quick: false,
        custom: None,
        custom_replay: None,
    }
}
