//! C19 — CLP(Z) plusz/timesz constrain integers exactly.

use crate::ast::{Goal, Program, Term, VarId, ZGoal};
use crate::framework::*;
use crate::run::{self, End, Limits, Mode};
use crate::source::{hash_str, Source};
use serde_json::json;
use std::collections::BTreeMap;

#[derive(Clone, Debug, PartialEq)]
enum Expect {
    /// exactly one answer: Some(n) = determined, None = stays free
    One(Vec<Result<i64, VarId>>),
    NoAnswer,
    /// the property does not decide (aliased unknown in a pending constraint): soundness only
    Undecided,
}

fn val(t: &Term, known: &BTreeMap<VarId, i64>) -> Option<i64> {
    match t {
        Term::Int(i) => Some(*i),
        Term::Var(v) => known.get(v).copied(),
        _ => None,
    }
}

/// Reference: fixpoint of "two operands known => third determined / checked".
/// representative of the class of `v` under the `var == var` goals
fn find(parent: &BTreeMap<VarId, VarId>, mut v: VarId) -> VarId {
    while let Some(p) = parent.get(&v) {
        if *p == v {
            break;
        }
        v = *p;
    }
    v
}

fn rewrite(t: &Term, parent: &BTreeMap<VarId, VarId>) -> Term {
    match t {
        Term::Var(v) => Term::Var(find(parent, *v)),
        t => t.clone(),
    }
}

fn reference(nq: usize, goals_in: &[Goal]) -> Expect {
    // aliasing `x == y`: work on class representatives
    let mut parent: BTreeMap<VarId, VarId> = BTreeMap::new();
    for g in goals_in {
        if let Goal::Eq(Term::Var(a), Term::Var(b)) = g {
            let (ra, rb) = (find(&parent, *a), find(&parent, *b));
            if ra != rb {
                parent.insert(ra.max(rb), ra.min(rb));
            }
        }
    }
    let goals_v: Vec<Goal> = goals_in
        .iter()
        .filter(|g| !matches!(g, Goal::Eq(Term::Var(_), Term::Var(_))))
        .map(|g| match g {
            Goal::Eq(a, b) => Goal::Eq(rewrite(a, &parent), rewrite(b, &parent)),
            Goal::Z(ZGoal::Plus(a, b, c)) => Goal::Z(ZGoal::Plus(rewrite(a, &parent), rewrite(b, &parent), rewrite(c, &parent))),
            Goal::Z(ZGoal::Times(a, b, c)) => Goal::Z(ZGoal::Times(rewrite(a, &parent), rewrite(b, &parent), rewrite(c, &parent))),
            g => g.clone(),
        })
        .collect();
    let goals = &goals_v[..];
    let mut known: BTreeMap<VarId, i64> = BTreeMap::new();
    for g in goals {
        if let Goal::Eq(Term::Var(v), Term::Int(n)) = g {
            if let Some(old) = known.insert(*v, *n) {
                if old != *n {
                    return Expect::NoAnswer;
                }
            }
        }
    }
    let mut undecided = false;
    loop {
        let mut changed = false;
        undecided = false;
        for g in goals {
            let (is_plus, a, b, c) = match g {
                Goal::Z(ZGoal::Plus(a, b, c)) => (true, a, b, c),
                Goal::Z(ZGoal::Times(a, b, c)) => (false, a, b, c),
                _ => continue,
            };
            let (x, y, z) = (val(a, &known), val(b, &known), val(c, &known));
            let unknown: Vec<&Term> = [a, b, c].into_iter().zip([x, y, z]).filter(|(_, v)| v.is_none()).map(|(t, _)| t).collect();
            match (x, y, z) {
                (Some(x), Some(y), Some(z)) => {
                    let ok = if is_plus { x + y == z } else { x * y == z };
                    if !ok {
                        return Expect::NoAnswer;
                    }
                }
                _ if unknown.len() == 1 => {
                    let uv = if let Term::Var(v) = unknown[0] { *v } else { continue };
                    let derived: Option<Option<i64>> = if is_plus {
                        // Some(Some(n)) determined, Some(None) every integer works, None = no solution
                        match (x, y, z) {
                            (Some(x), Some(y), None) => Some(Some(x + y)),
                            (Some(x), None, Some(z)) => Some(Some(z - x)),
                            (None, Some(y), Some(z)) => Some(Some(z - y)),
                            _ => unreachable!(),
                        }
                    } else {
                        match (x, y, z) {
                            (Some(x), Some(y), None) => Some(Some(x * y)),
                            (Some(d), None, Some(z)) | (None, Some(d), Some(z)) => {
                                if d == 0 {
                                    if z == 0 {
                                        Some(None)
                                    } else {
                                        None
                                    }
                                } else if z % d == 0 {
                                    Some(Some(z / d))
                                } else {
                                    None
                                }
                            }
                            _ => unreachable!(),
                        }
                    };
                    match derived {
                        None => return Expect::NoAnswer,
                        Some(Some(n)) => {
                            known.insert(uv, n);
                            changed = true;
                        }
                        Some(None) => {}
                    }
                }
                _ => {
                    // two or three unknown positions: if they are the same variable the
                    // constraint is an equation in one unknown (algebra) — not decided
                    let mut vs: Vec<VarId> = vec![];
                    for t in &unknown {
                        if let Term::Var(v) = t {
                            if vs.contains(v) {
                                undecided = true;
                            }
                            vs.push(*v);
                        }
                    }
                }
            }
        }
        if !changed {
            break;
        }
    }
    if undecided {
        return Expect::Undecided;
    }
    // undetermined variables are reported by class: Err(representative)
    Expect::One((0..nq).map(|v| { let r = find(&parent, v as VarId); match known.get(&r) { Some(n) => Ok(*n), None => Err(r) } }).collect())
}

fn gen_goals(s: &mut Source) -> (usize, Vec<Goal>) {
    let nq = 1 + s.below(4);
    let operand = |s: &mut Source| -> Term {
        if s.flag(100) {
            // zero and small values weighted
            let pool = [0i64, 1, 2, 3, -1, -2, 4, 6, 5, -3, -6];
            Term::Int(pool[s.below(pool.len())])
        } else {
            Term::Var(s.below(nq) as VarId)
        }
    };
    let nc = 1 + s.below(3);
    let mut goals = vec![];
    for _ in 0..nc {
        let (a, b, c) = (operand(s), operand(s), operand(s));
        goals.push(if s.flag(128) { Goal::Z(ZGoal::Times(a, b, c)) } else { Goal::Z(ZGoal::Plus(a, b, c)) });
    }
    // aliasing between variables (either orientation)
    let na = s.weighted(&[5, 3, 1]);
    for _ in 0..na {
        let (a, b) = (s.below(nq) as VarId, s.below(nq) as VarId);
        if a != b {
            goals.push(Goal::Eq(Term::Var(a), Term::Var(b)));
        }
    }
    let nb = s.below(nq + 2);
    for _ in 0..nb {
        let v = s.below(nq) as VarId;
        let pool = [0i64, 1, 2, 3, -1, -2, 4, 6, 5, -3, -6];
        goals.push(Goal::Eq(Term::Var(v), Term::Int(pool[s.below(pool.len())])));
    }
    let perm = s.permutation(goals.len());
    let goals = perm.into_iter().map(|i| goals[i].clone()).collect();
    (nq, goals)
}

fn eq_holds(g: &Goal, terms: &[Term]) -> Option<bool> {
    let v = |t: &Term| -> Option<i64> {
        match t {
            Term::Int(i) => Some(*i),
            Term::Var(v) => match terms.get(*v as usize) {
                Some(Term::Int(i)) => Some(*i),
                _ => None,
            },
            _ => None,
        }
    };
    match g {
        Goal::Z(ZGoal::Plus(a, b, c)) => Some(v(a)? + v(b)? == v(c)?),
        Goal::Z(ZGoal::Times(a, b, c)) => Some(v(a)? * v(b)? == v(c)?),
        Goal::Eq(a, b) => Some(v(a)? == v(b)?),
        _ => None,
    }
}

pub fn eval(nq: usize, goals: &[Goal], ctx: &Ctx) -> CaseInfo {
    let p = Program { nq, body: goals.to_vec() };
    let mut info = CaseInfo::default();
    let desc = p.show();
    info.key = hash_str(&desc);
    let expect = reference(nq, goals);
    // classes / non-trivial
    let mut bound_so_far: Vec<VarId> = vec![];
    let mut early = false;
    let mut all_unbound = false;
    let mut zero_or_nondiv = false;
    for g in goals {
        match g {
            Goal::Eq(Term::Var(v), _) => bound_so_far.push(*v),
            Goal::Z(z) => {
                let (a, b, c) = match z {
                    ZGoal::Plus(a, b, c) | ZGoal::Times(a, b, c) => (a, b, c),
                };
                let unb = [a, b, c].iter().filter(|t| matches!(t, Term::Var(v) if !bound_so_far.contains(v))).count();
                if unb >= 1 {
                    early = true;
                }
                if unb == 3 {
                    all_unbound = true;
                }
                if let ZGoal::Times(..) = z {
                    if [a, b, c].iter().any(|t| matches!(t, Term::Int(0))) {
                        zero_or_nondiv = true;
                    }
                }
            }
            _ => {}
        }
    }
    if early {
        info.class("constraint-posted-before-operands-ground");
    }
    if all_unbound {
        info.class("all-three-operands-unbound-at-posting");
    }
    if zero_or_nondiv {
        info.class("zero-operand-in-timesz");
    }
    match &expect {
        Expect::One(v) if v.iter().any(|x| x.is_err()) => info.class("some-variable-stays-free"),
        Expect::One(_) => info.class("fully-determined"),
        Expect::NoAnswer => info.class("inconsistent"),
        Expect::Undecided => info.class("undecided-aliasing(soundness-only)"),
    }
    info.nontrivial = early || all_unbound || zero_or_nondiv;
    let out = run::run(&p, Mode::Bfs, Limits::all());
    if ctx.want_sample {
        info.sample = Some(json!({ "program": desc, "answers": run::show_answers(&out.answers), "expected": format!("{:?}", expect) }));
    }
    match &out.end {
        End::Panic(pi) => {
            info.fail(format!("C19:panic:{}", pi.key()), format!("{}\n  panicked: {} at {}", desc, pi.message, pi.location));
            return info;
        }
        End::Exhausted => {}
        _ => return CaseInfo { skip: Some("impl-incomplete"), ..info },
    }
    // soundness, whatever the case: every constraint / binding that is ground in an answer holds
    for a in &out.answers {
        for g in goals {
            if eq_holds(g, &a.terms) == Some(false) {
                info.fail(
                    format!("C19:answer-violates-{}", match g { Goal::Z(ZGoal::Plus(..)) => "plusz", Goal::Z(ZGoal::Times(..)) => "timesz", _ => "binding" }),
                    format!("{}\n  answer {} violates {}", desc, run::show_answer(a), crate::ast::show_goal(g, nq)),
                );
                return info;
            }
        }
    }
    match expect {
        Expect::Undecided => {}
        Expect::NoAnswer => {
            if !out.answers.is_empty() {
                info.fail("C19:answer-for-inconsistent-program", format!("{}\n  answers {} but the equations have no integer solution", desc, run::show_answers(&out.answers)));
            }
        }
        Expect::One(vals) => {
            // free variables: one reified variable per class, numbered by first occurrence
            let mut seen: Vec<VarId> = vec![];
            let want: Vec<Term> = vals
                .iter()
                .map(|v| match v {
                    Ok(n) => Term::Int(*n),
                    Err(r) => {
                        let i = match seen.iter().position(|x| x == r) {
                            Some(i) => i,
                            None => {
                                seen.push(*r);
                                seen.len() - 1
                            }
                        };
                        Term::Var(i as VarId)
                    }
                })
                .collect();
            let got: Vec<Vec<Term>> = out.answers.iter().map(|a| a.terms.clone()).collect();
            if got != vec![want.clone()] {
                let sig = if got.is_empty() {
                    "C19:no-answer-but-solvable"
                } else if got.len() > 1 {
                    "C19:several-answers"
                } else {
                    "C19:wrong-value"
                };
                info.fail(sig, format!("{}\n  answers {}\n  expected exactly one: ({})", desc, run::show_answers(&out.answers), want.iter().map(|t| crate::ast::show_term(t, crate::ast::ANSWER)).collect::<Vec<_>>().join(", ")));
            }
        }
    }
    info
}

fn run_family(bytes: &[u8], ctx: &Ctx) -> CaseInfo {
    let mut s = Source::new(bytes);
    let (nq, goals) = gen_goals(&mut s);
    eval(nq, &goals, ctx)
}

/// Scale: a cascade of up to 400 (thorough 1000) pending constraints x(i) -> x(i+1), posted
/// along or against the direction in which values will flow, decided by binding one variable.
fn run_chains(bytes: &[u8], ctx: &Ctx) -> CaseInfo {
    use crate::gen::scale;
    let mut s = Source::new(bytes);
    let n = scale::size(&mut s, scale::cap(ctx.tier == Tier::Thorough));
    let x = |i: usize| Term::Var(i as VarId);
    // global choices first (the byte string is short; per-link choices come from a small
    // repeating pattern so that they do not exhaust it)
    let order_kind = s.weighted(&[3, 3, 2]);
    let at_var = match s.weighted(&[3, 3, 2]) {
        0 => 0,
        1 => n,
        _ => s.below(n + 1),
    };
    let bind_val = s.range(-2, 3);
    let pos_kind = s.weighted(&[4, 2, 2]);
    let pos_any = s.below(n + 2);
    let closing = s.weighted(&[4, 2, 2]);
    let closing_val = s.range(-2, 3);
    let closing_var = s.below(n + 1);
    let closing_pos = s.below(n + 2);
    let closing_first = s.flag(128);
    let plen = 1 + s.below(6);
    let pattern: Vec<(usize, i64, bool)> = (0..plen).map(|_| (s.weighted(&[4, 2, 2, 2, 1]), s.range(-3, 3), s.flag(128))).collect();
    let mut links: Vec<Goal> = vec![];
    let mut doublings = 0;
    for i in 0..n {
        let (kind, kv, sign) = pattern[i % plen];
        let k = Term::Int(kv);
        let g = match kind {
            0 => Goal::Z(ZGoal::Plus(x(i), k, x(i + 1))),
            1 => Goal::Z(ZGoal::Plus(k, x(i), x(i + 1))),
            2 => Goal::Z(ZGoal::Plus(x(i + 1), k, x(i))),
            3 => Goal::Z(ZGoal::Times(x(i), Term::Int(if sign { 1 } else { -1 }), x(i + 1))),
            _ => {
                if doublings < 12 {
                    doublings += 1;
                    Goal::Z(ZGoal::Times(x(i), Term::Int(2), x(i + 1)))
                } else {
                    Goal::Z(ZGoal::Plus(x(i), Term::Int(1), x(i + 1)))
                }
            }
        };
        links.push(g);
    }
    let order: Vec<usize> = match order_kind {
        0 => (0..n).collect(),
        1 => (0..n).rev().collect(),
        _ => s.permutation(n),
    };
    let mut goals: Vec<Goal> = order.into_iter().map(|i| links[i].clone()).collect();
    let bind = Goal::Eq(x(at_var), Term::Int(bind_val));
    let pos = match pos_kind {
        0 => goals.len(),
        1 => 0,
        _ => pos_any.min(goals.len()),
    };
    goals.insert(pos, bind);
    match closing {
        0 => {}
        1 => {
            let g = Goal::Z(ZGoal::Plus(x(n), Term::Int(closing_val), x(0)));
            let pos = if closing_first { 0 } else { goals.len() };
            goals.insert(pos, g);
        }
        _ => {
            let g = Goal::Eq(x(closing_var), Term::Int(closing_val));
            goals.insert(closing_pos.min(goals.len()), g);
        }
    }
    if std::env::var("PVH_SHOW").is_ok() {
        let p = Program { nq: n + 1, body: goals.clone() };
        let d = p.show();
        eprintln!("SHOW n={} {} ... {}", n, d.chars().take(150).collect::<String>(), &d[d.len().saturating_sub(120)..]);
    }
    let mut info = eval(n + 1, &goals, ctx);
    truncate_sample(&mut info, 400);
    info.class(if n >= 256 { "links>=256" } else if n >= 64 { "links>=64" } else if n >= 16 { "links>=16" } else { "links<16" });
    info
}

/// Pending constraints before a disjunction whose branches bind and alias the operands.
fn run_branches(bytes: &[u8], ctx: &Ctx) -> CaseInfo {
    let mut s = Source::new(bytes);
    let (nq, goals) = gen_goals(&mut s);
    let nq = nq.max(2);
    let cut = s.below(goals.len() + 1);
    let prefix: Vec<Goal> = goals[..cut].to_vec();
    let pool = [0i64, 1, 2, 3, -1, -2, 4, 6, 5];
    let nb = 2 + if s.flag(60) { 1 } else { 0 };
    let mut branches: Vec<Vec<Goal>> = vec![];
    let mut rest: Vec<Goal> = goals[cut..].to_vec();
    for _ in 0..nb {
        let n = 1 + s.below(3);
        let mut b = vec![];
        for _ in 0..n {
            let g = match s.weighted(&[3, 3, 2]) {
                0 => Goal::Eq(Term::Var(s.below(nq) as VarId), Term::Int(pool[s.below(pool.len())])),
                1 => {
                    let a = s.below(nq);
                    let c = (a + 1 + s.below(nq - 1)) % nq;
                    Goal::Eq(Term::Var(a as VarId), Term::Var(c as VarId))
                }
                _ => match rest.pop() {
                    Some(g) => g,
                    None => Goal::Eq(Term::Var(s.below(nq) as VarId), Term::Int(pool[s.below(pool.len())])),
                },
            };
            b.push(g);
        }
        branches.push(b);
    }
    let mut body = prefix.clone();
    body.push(Goal::Conde(branches.clone()));
    let p = Program { nq, body };
    let mut info = CaseInfo::default();
    let desc = p.show();
    info.key = hash_str(&desc);
    info.class("disjunction-after-pending-constraints");
    let expects: Vec<Expect> = branches
        .iter()
        .map(|b| {
            let mut g = prefix.clone();
            g.extend(b.iter().cloned());
            reference(nq, &g)
        })
        .collect();
    let pending = prefix.iter().any(|g| matches!(g, Goal::Z(_)));
    info.nontrivial = pending && expects.iter().filter(|e| matches!(e, Expect::One(_))).count() >= 2;
    let out = run::run(&p, Mode::Bfs, Limits::all());
    if ctx.want_sample {
        info.sample = Some(json!({ "program": desc, "answers": run::show_answers(&out.answers), "expected_per_branch": format!("{:?}", expects) }));
    }
    match &out.end {
        End::Panic(pi) => {
            info.fail(format!("C19:panic:{}", pi.key()), format!("{}\n  panicked: {} at {}", desc, pi.message, pi.location));
            return info;
        }
        End::Exhausted => {}
        _ => return CaseInfo { skip: Some("impl-incomplete"), ..info },
    }
    // soundness per answer against the prefix constraints
    for a in &out.answers {
        for g in &prefix {
            if eq_holds(g, &a.terms) == Some(false) {
                info.fail("C19:answer-violates-prefix-constraint", format!("{}\n  answer {} violates {}", desc, run::show_answer(a), crate::ast::show_goal(g, nq)));
                return info;
            }
        }
    }
    if expects.iter().any(|e| matches!(e, Expect::Undecided)) {
        info.class("undecided-aliasing(soundness-only)");
        return info;
    }
    let mut want: Vec<Vec<Term>> = vec![];
    for e in &expects {
        if let Expect::One(vals) = e {
            let mut seen: Vec<VarId> = vec![];
            want.push(
                vals.iter()
                    .map(|v| match v {
                        Ok(n) => Term::Int(*n),
                        Err(r) => {
                            let i = match seen.iter().position(|x| x == r) {
                                Some(i) => i,
                                None => {
                                    seen.push(*r);
                                    seen.len() - 1
                                }
                            };
                            Term::Var(i as VarId)
                        }
                    })
                    .collect(),
            );
        }
    }
    let mut got: Vec<Vec<Term>> = out.answers.iter().map(|a| a.terms.clone()).collect();
    got.sort();
    want.sort();
    if got != want {
        let show = |v: &Vec<Vec<Term>>| v.iter().map(|t| format!("({})", t.iter().map(|x| crate::ast::show_term(x, crate::ast::ANSWER)).collect::<Vec<_>>().join(", "))).collect::<Vec<_>>().join("; ");
        info.fail("C19:disjunction-answers-differ", format!("{}\n  answers  [{}]\n  expected [{}] (one per consistent branch, by the integer fixpoint of prefix + branch)", desc, show(&got), show(&want)));
    }
    info
}

fn chain(ctx: &Ctx) -> CaseInfo {
    // plusz(1, r, q), plusz(r, 10, p), p == 15
    let (q, r, p) = (Term::Var(0), Term::Var(1), Term::Var(2));
    eval(3, &[Goal::Z(ZGoal::Plus(Term::Int(1), r.clone(), q)), Goal::Z(ZGoal::Plus(r, Term::Int(10), p.clone())), Goal::Eq(p, Term::Int(15))], ctx)
}

fn text_examples(ctx: &Ctx) -> CaseInfo {
    let x = Term::Var(0);
    let mut first: Option<CaseInfo> = None;
    let cases: Vec<(usize, Vec<Goal>)> = vec![
        (1, vec![Goal::Z(ZGoal::Plus(Term::Int(1), Term::Int(2), Term::Int(3)))]),
        (3, vec![Goal::Z(ZGoal::Plus(Term::Var(0), Term::Var(1), Term::Var(2))), Goal::Eq(Term::Var(0), Term::Int(1)), Goal::Eq(Term::Var(1), Term::Int(2))]),
        (1, vec![Goal::Z(ZGoal::Times(Term::Int(2), x.clone(), Term::Int(5)))]),
        (1, vec![Goal::Z(ZGoal::Times(Term::Int(0), x.clone(), Term::Int(0)))]),
        (1, vec![Goal::Z(ZGoal::Times(Term::Int(0), x.clone(), Term::Int(3)))]),
    ];
    for (nq, g) in cases {
        let i = eval(nq, &g, ctx);
        if i.failure.is_some() || first.is_none() {
            let failed = i.failure.is_some();
            first = Some(i);
            if failed {
                break;
            }
        }
    }
    first.unwrap()
}

/// Exhaustive: one constraint, every groundness pattern, every posting order of the bindings
/// relative to the constraint, operand values in -2..=2.
fn exhaustive(ctx: &Ctx, emit: Emit) -> String {
    let quiet = Ctx { want_sample: false, ..*ctx };
    let vals = [-2i64, -1, 0, 1, 2];
    for times in [false, true] {
        // each operand: literal value, or variable bound before, or bound after, or never bound
        for pat in 0..(4usize.pow(3)) {
            let modes = [pat % 4, (pat / 4) % 4, (pat / 16) % 4];
            for a in vals {
                for b in vals {
                    for c in vals {
                        let v = [a, b, c];
                        let mut before = vec![];
                        let mut after = vec![];
                        let mut ops = vec![];
                        for i in 0..3 {
                            match modes[i] {
                                0 => ops.push(Term::Int(v[i])),
                                1 => {
                                    ops.push(Term::Var(i as VarId));
                                    before.push(Goal::Eq(Term::Var(i as VarId), Term::Int(v[i])));
                                }
                                2 => {
                                    ops.push(Term::Var(i as VarId));
                                    after.push(Goal::Eq(Term::Var(i as VarId), Term::Int(v[i])));
                                }
                                _ => ops.push(Term::Var(i as VarId)),
                            }
                        }
                        // values of never-bound operands are irrelevant: canonicalise to avoid repeats
                        if (0..3).any(|i| modes[i] == 3 && v[i] != -2) {
                            continue;
                        }
                        let z = if times { ZGoal::Times(ops[0].clone(), ops[1].clone(), ops[2].clone()) } else { ZGoal::Plus(ops[0].clone(), ops[1].clone(), ops[2].clone()) };
                        let mut goals = before;
                        goals.push(Goal::Z(z));
                        goals.extend(after.iter().cloned());
                        emit(eval(3, &goals, &quiet));
                        if after.len() == 2 {
                            // the other order of the two later bindings
                            let n = goals.len();
                            goals.swap(n - 1, n - 2);
                            emit(eval(3, &goals, &quiet));
                        }
                    }
                }
            }
        }
    }
    "one plusz/timesz constraint, each operand a literal / bound before / bound after / never bound, values in -2..=2, both orders of later bindings".to_string()
}

pub fn run_family_pub(bytes: &[u8], ctx: &Ctx) -> CaseInfo {
    run_family(bytes, ctx)
}

pub fn def() -> PropertyDef {
    PropertyDef {
        id: "C19",
        rule: "1-4 query variables, 1-3 plusz/timesz constraints with operands drawn from small integers (zero and non-divisible products weighted) and the variables (aliasing allowed), plus bindings `v == n`, all in a random posting order. Oracle: integer arithmetic fixpoint (two operands known => third determined or checked; 0*r=0 leaves r free): consistent => exactly one answer with the determined integers and the other variables free; inconsistent => no answer; programs needing algebra (same unknown in two positions) get only the soundness check (every ground constraint of an answer holds) and the no-panic check. Non-trivial = a constraint posted before one of its operands is ground, or with all three unbound, or timesz with a zero operand; distinct = hash of the printed program. The exhaustive enumeration (one constraint, every groundness pattern and posting order, values -2..=2) runs in both tiers",
        assumptions: vec!["operands are variables or integer literals (constructor precondition); intermediate integers within isize"],
        families: vec![
            Family { name: "clpz", max_len: 64, quick: 300_000, thorough: 6_000_000, run: run_family },
            Family { name: "cascades", max_len: 96, quick: 20_000, thorough: 200_000, run: run_chains },
            Family { name: "branches", max_len: 96, quick: 400_000, thorough: 3_000_000, run: run_branches },
        ],
        fixed: vec![Fixed { name: "chain", run: chain }, Fixed { name: "property-text-examples", run: text_examples }],
        witnesses: vec![],
        exhaustive: Some(exhaustive),
        exhaustive_in_quick: true,
        custom: None,
        custom_replay: None,
    }
}
