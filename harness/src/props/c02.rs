//! C02 — disequality constraints are sound, complete and order-free.

use crate::ast::{Goal, Program, Term, VarId};
use crate::canon::{self, Universe};
use crate::framework::*;
use crate::gen::tree::{gen_program, TreeCfg};
use crate::model::interp;
use crate::oracle::{self, RefResult, Verdict};
use crate::run::{self, Limits, Mode};
use crate::source::{hash_str, Source};
use serde_json::json;

fn has_diseq(p: &Program) -> bool {
    p.body.iter().any(|g| g.any(&|x| matches!(x, Goal::Diseq(..))))
}

fn has_eq(p: &Program) -> bool {
    p.body.iter().any(|g| g.any(&|x| matches!(x, Goal::Eq(..))))
}

fn is_flat(p: &Program) -> bool {
    // all variables are query variables, no disjunction
    !p.body.iter().any(|g| g.any(&|x| matches!(x, Goal::Fresh(..) | Goal::Conde(..))))
}

fn atoms(g: &Goal, out: &mut Vec<Goal>) {
    match g {
        Goal::Eq(..) | Goal::Diseq(..) | Goal::Succeed | Goal::Fail => out.push(g.clone()),
        Goal::Conj(gs) => gs.iter().for_each(|x| atoms(x, out)),
        _ => {}
    }
}

/// closure of a universe under sub-terms
fn close_subterms(u: &mut Universe) {
    let mut i = 0;
    while i < u.0.len() {
        let t = u.0[i].clone();
        let mut push = |x: &Term| {
            if !u.0.contains(x) {
                u.0.push(x.clone());
            }
        };
        match &t {
            Term::Cons(h, tl) => {
                push(h);
                push(tl);
            }
            Term::Cmp(_, a) => a.iter().for_each(|x| push(x)),
            _ => {}
        }
        i += 1;
    }
}

fn subst_ground(t: &Term, g: &[Term]) -> Term {
    t.map_vars(&mut |v| g.get(v as usize).cloned().unwrap_or(Term::Var(v)))
}

/// (D) reference-free brute force for flat programs
fn brute_force(p: &Program, answers: &[run::Answer], u: &Universe) -> Option<(Vec<Term>, bool, bool)> {
    let mut at = vec![];
    p.body.iter().for_each(|g| atoms(g, &mut at));
    let n = u.0.len();
    let total = n.pow(p.nq as u32);
    for i in 0..total {
        let mut x = i;
        let mut g = vec![];
        for _ in 0..p.nq {
            g.push(u.0[x % n].clone());
            x /= n;
        }
        let formula = at.iter().all(|a| match a {
            Goal::Eq(l, r) => subst_ground(l, &g) == subst_ground(r, &g),
            Goal::Diseq(l, r) => subst_ground(l, &g) != subst_ground(r, &g),
            Goal::Fail => false,
            _ => true,
        });
        let mut covered = false;
        for a in answers {
            match canon::instance_of(&g, a, u) {
                Some(true) => {
                    covered = true;
                    break;
                }
                Some(false) => {}
                None => return None,
            }
        }
        if formula != covered {
            return Some((g, formula, covered));
        }
    }
    None
}

pub fn eval(p: &Program, s: &mut Source, ctx: &Ctx) -> CaseInfo {
    let mut info = CaseInfo::default();
    let desc = p.show();
    info.key = hash_str(&desc);
    if ctx.want_sample {
        info.sample = Some(json!({ "program": desc }));
    }
    let out = oracle::run_all(p, Mode::Bfs);
    let fresh = canon::count_diseqs(p) + 2;
    let u = canon::universe(&[p], &[], fresh, 9);
    // (A) against the reference interpreter
    let reference = match oracle::reference_answers(p) {
        RefResult::Answers(a) => a,
        RefResult::Skip(w) => return CaseInfo { skip: Some(w), ..info },
    };
    let diseq_alive = out.answers.iter().any(|a| !a.cons.is_empty());
    let killed = has_diseq(p) && {
        // a path killed by a disequality: the program without its disequalities has more answers
        let stripped = strip_diseqs(p);
        match oracle::reference_answers(&stripped) {
            RefResult::Answers(a2) => a2.len() > reference.len(),
            _ => false,
        }
    };
    info.nontrivial = has_diseq(p) && has_eq(p) && (diseq_alive || killed);
    if diseq_alive {
        info.class("constraint-in-answer");
    }
    if killed {
        info.class("path-killed-by-diseq");
    }
    if out.meta.iter().any(|m| m.hidden_vars > 0) {
        info.class("hidden-variable-in-constraint");
    }
    if reference.len() > 1 {
        info.class("several-answers");
    }
    if ctx.want_sample {
        info.sample = Some(json!({ "program": desc, "answers": run::show_answers(&out.answers), "reference": run::show_answers(&reference) }));
    }
    match oracle::compare_with_reference("C02", p, &out, &reference, &u) {
        Verdict::Ok => {}
        Verdict::Skip(w) => return CaseInfo { skip: Some(w), ..info },
        Verdict::Fail(sig, detail) => {
            info.fail(sig, detail);
            return info;
        }
    }
    // (A') the constraints as a user reads them: LResult::constraints() / is_constrained() of
    // every query variable must report exactly the stored constraints that mention a reified
    // variable of that query variable's term (the answers above are read from the reified store)
    for (a, m) in out.answers.iter().zip(out.meta.iter()) {
        for (i, ((n, isc), exp)) in m.reported.iter().zip(m.expected_reported.iter()).enumerate() {
            if *n != *exp || *isc != (*exp > 0) {
                info.fail(
                    "C02:constraint-not-visible-through-LResult",
                    format!("{}\n  answer {}: query variable {}: constraints() returned {} (is_constrained={}), but {} stored constraint(s) mention a reified variable occurring in it", desc, run::show_answer(a), i, n, isc, exp),
                );
                return info;
            }
        }
    }
    // (B) ground tuples: P ∧ q == g has an answer  <=>  reference holds(P, g)  <=>  g is an
    // instance of some answer
    let ntuples = 6;
    for i in 0..ntuples {
        let g: Vec<Term> = if i < 3 && !out.answers.is_empty() {
            // instance derived from an answer
            let a = &out.answers[s.below(out.answers.len())];
            a.terms.iter().map(|t| t.map_vars(&mut |v| u.0[(v as usize * 7 + i + 1) % u.0.len()].clone())).collect()
        } else {
            oracle::ground_tuple(s, &u, p.nq)
        };
        let mut body = p.body.clone();
        body.push(Goal::Eq(Term::list((0..p.nq).map(|i| Term::Var(i as VarId)).collect()), Term::list(g.clone())));
        let p2 = Program { nq: p.nq, body };
        let out2 = run::run(&p2, Mode::Bfs, Limits::all());
        if !out2.complete() {
            continue;
        }
        let has = !out2.answers.is_empty();
        let rf = match interp::holds(p, &g, oracle::REF_FUEL) {
            Ok(b) => b,
            Err(_) => continue,
        };
        let mut inst = Some(false);
        for a in &out.answers {
            match canon::instance_of(&g, a, &u) {
                Some(true) => {
                    inst = Some(true);
                    break;
                }
                Some(false) => {}
                None => {
                    inst = None;
                    break;
                }
            }
        }
        let gs: Vec<String> = g.iter().map(|t| crate::ast::show_term(t, 0)).collect();
        if has != rf {
            info.fail(
                if has { "C02:ground-tuple-accepted-but-not-a-solution" } else { "C02:ground-solution-rejected" },
                format!("{}\n  extended with q == {:?}: implementation has answer = {}, reference holds = {}", desc, gs, has, rf),
            );
            return info;
        }
        if let Some(b) = inst {
            if b != rf {
                info.fail(
                    if b { "C02:answer-instance-is-not-a-solution" } else { "C02:solution-not-covered-by-any-answer" },
                    format!("{}\n  answers {}\n  ground tuple {:?}: instance of an answer = {}, reference holds = {}", desc, run::show_answers(&out.answers), gs, b, rf),
                );
                return info;
            }
        }
    }
    // (C) permutations of every conjunction
    for _ in 0..4 {
        let q = oracle::permuted(p, s, false);
        if q == *p {
            continue;
        }
        let outq = oracle::run_all(&q, Mode::Bfs);
        if !outq.complete() {
            if let run::End::Panic(pi) = &outq.end {
                info.fail(format!("C02:panic:{}", pi.key()), format!("{}\n  panicked: {} at {}", q.show(), pi.message, pi.location));
                return info;
            }
            continue;
        }
        info.class("permuted");
        match canon::multiset_cmp(&out.answers, &outq.answers, &u) {
            Ok(None) => {}
            Err(()) => {}
            Ok(Some(d)) => {
                info.fail(
                    "C02:order-dependent",
                    format!(
                        "{}\n  answers {}\n  permuted: {}\n  answers {}\n  only original: {}\n  only permuted: {}",
                        desc,
                        run::show_answers(&out.answers),
                        q.show(),
                        run::show_answers(&outq.answers),
                        run::show_answers(&d.only_left),
                        run::show_answers(&d.only_right)
                    ),
                );
                return info;
            }
        }
    }
    // (D) brute force without any interpreter, flat programs only
    if is_flat(p) && p.nq <= 3 {
        let mut ud = canon::universe(&[p], &[], fresh.min(3), 10);
        close_subterms(&mut ud);
        if ud.0.len() <= 16 {
            info.class("brute-force-checked");
            if let Some((g, formula, covered)) = brute_force(p, &out.answers, &ud) {
                let gs: Vec<String> = g.iter().map(|t| crate::ast::show_term(t, 0)).collect();
                info.fail(
                    if covered { "C02:brute-force:unsound-answer" } else { "C02:brute-force:missing-solution" },
                    format!("{}\n  answers {}\n  ground tuple {:?}: satisfies the program = {}, instance of an answer = {}", desc, run::show_answers(&out.answers), gs, formula, covered),
                );
            }
        }
    }
    info
}

fn strip_diseqs(p: &Program) -> Program {
    fn strip(g: &Goal) -> Goal {
        match g {
            Goal::Diseq(..) => Goal::Succeed,
            Goal::Conj(gs) => Goal::Conj(gs.iter().map(strip).collect()),
            Goal::Fresh(v, gs) => Goal::Fresh(v.clone(), gs.iter().map(strip).collect()),
            Goal::Conde(c) => Goal::Conde(c.iter().map(|gs| gs.iter().map(strip).collect()).collect()),
            g => g.clone(),
        }
    }
    Program { nq: p.nq, body: p.body.iter().map(strip).collect() }
}

fn run_tree(bytes: &[u8], ctx: &Ctx) -> CaseInfo {
    let mut s = Source::new(bytes);
    let p = gen_program(&mut s, &TreeCfg::c02());
    eval(&p, &mut s, ctx)
}

fn run_flat(bytes: &[u8], ctx: &Ctx) -> CaseInfo {
    let mut s = Source::new(bytes);
    let mut cfg = TreeCfg::c02();
    cfg.conde = false;
    cfg.fresh = false;
    cfg.nq_max = 3;
    cfg.max_atoms = 5;
    let p = gen_program(&mut s, &cfg);
    eval(&p, &mut s, ctx)
}

// ---------------------------------------------------------------------------------------------
// scale family: flat conjunctions with MANY disequalities alive in the store at once
// ---------------------------------------------------------------------------------------------

fn flat_atoms(p: &Program) -> Vec<Goal> {
    let mut at = vec![];
    p.body.iter().for_each(|g| atoms(g, &mut at));
    at
}

fn formula_holds(at: &[Goal], g: &[Term]) -> bool {
    at.iter().all(|a| match a {
        Goal::Eq(l, r) => subst_ground(l, g) == subst_ground(r, g),
        Goal::Diseq(l, r) => subst_ground(l, g) != subst_ground(r, g),
        Goal::Fail => false,
        _ => true,
    })
}

pub fn decode_scale(s: &mut Source, thorough: bool) -> Program {
    use crate::gen::scale;
    let nq = 2 + s.below(5);
    let n = scale::size(s, scale::cap(thorough));
    let var = |s: &mut Source| Term::Var(s.below(nq) as VarId);
    let two_vars = |s: &mut Source| {
        let a = s.below(nq);
        let b = (a + 1 + s.below(nq - 1)) % nq;
        (Term::Var(a as VarId), Term::Var(b as VarId))
    };
    // filler: `x != k` with distinct constants; the variable cycles unless decorated
    let mut body: Vec<Goal> = (0..n).map(|i| Goal::Diseq(Term::Var((i % nq) as VarId), Term::Int(10 + i as i64))).collect();
    // special disequalities at chosen positions
    let mut weak: Vec<(usize, Term, Term, Term, Term)> = vec![];
    let nspecial = s.below(7);
    for _ in 0..nspecial {
        let pos = s.below(n);
        body[pos] = match s.weighted(&[3, 3, 2, 2]) {
            0 => {
                let (a, b) = two_vars(s);
                Goal::Diseq(a, b)
            }
            1 => {
                let (a, b) = two_vars(s);
                let (c, d) = (Term::Int(s.below(4) as i64), Term::Int(s.below(4) as i64));
                weak.push((pos, a.clone(), b.clone(), c.clone(), d.clone()));
                if s.flag(128) {
                    Goal::Diseq(Term::list(vec![a, b]), Term::list(vec![c, d]))
                } else {
                    Goal::Diseq(Term::list(vec![c, d]), Term::list(vec![a, b]))
                }
            }
            2 => {
                let (a, b) = two_vars(s);
                Goal::Diseq(a, Term::list(vec![Term::Int(s.below(4) as i64), b]))
            }
            _ => Goal::Diseq(var(s), Term::Int(s.below(4) as i64)),
        };
    }
    // events are (position, goal) pairs inserted afterwards, from the back so positions hold
    let mut events: Vec<(usize, Goal)> = vec![];
    let place = |s: &mut Source, after: usize, n: usize| -> usize {
        // mostly at the very end, sometimes right after the constraint, sometimes anywhere
        match s.weighted(&[5, 2, 2]) {
            0 => n,
            1 => after + 1,
            _ => s.below(n + 1),
        }
    };
    // subsumption: a stronger constraint for a stored weak one
    for (pos, a, b, c, d) in weak.iter() {
        if s.flag(150) {
            let strong = if s.flag(160) { Goal::Diseq(a.clone(), c.clone()) } else { Goal::Diseq(b.clone(), d.clone()) };
            let at = place(s, *pos, n);
            events.push((at, strong));
        }
    }
    // deciding bindings aimed at a stored constraint
    let ndecide = s.below(4);
    for _ in 0..ndecide {
        let d = s.below(n);
        let (l, r) = match &body[d] {
            Goal::Diseq(l, r) => (l.clone(), r.clone()),
            _ => continue,
        };
        let at = place(s, d, n);
        match (&l, &r) {
            (Term::Var(_), _) | (_, Term::Var(_)) => {
                let (x, t) = if l.is_var() { (l.clone(), r.clone()) } else { (r.clone(), l.clone()) };
                match s.weighted(&[2, 2, 1, 5]) {
                    0 => events.push((at, Goal::Eq(x, t))),
                    1 => events.push((at, Goal::Eq(t, x))),
                    2 => {
                        // through an intermediate variable
                        let w = var(s);
                        events.push((at, Goal::Eq(w.clone(), t)));
                        events.push((at, Goal::Eq(x, w)));
                    }
                    _ => events.push((at, Goal::Eq(x, Term::Int(50_000 + d as i64)))),
                }
            }
            _ => {
                // list-shaped: bind component-wise, completely or partially
                let (ls, _) = l.uncons_all();
                let (rs, _) = r.uncons_all();
                let full = s.flag(90);
                for (k, (a, b)) in ls.iter().zip(rs.iter()).enumerate() {
                    if full || k == 0 {
                        let g = if s.flag(128) { Goal::Eq((*a).clone(), (*b).clone()) } else { Goal::Eq((*b).clone(), (*a).clone()) };
                        events.push((at, g));
                    }
                }
            }
        }
    }
    events.sort_by_key(|e| std::cmp::Reverse(e.0));
    for (at, g) in events {
        body.insert(at.min(body.len()), g);
    }
    Program { nq, body }
}

fn eval_scale(p: &Program, s: &mut Source, ctx: &Ctx) -> CaseInfo {
    use crate::model::unify::{unify, Subst};
    let mut info = CaseInfo::default();
    let desc = p.show();
    info.key = hash_str(&desc);
    let at = flat_atoms(p);
    let ndis = at.iter().filter(|a| matches!(a, Goal::Diseq(..))).count();
    info.class(if ndis >= 256 { "diseqs>=256" } else if ndis >= 64 { "diseqs>=64" } else if ndis >= 16 { "diseqs>=16" } else { "diseqs<16" });
    // reference: mgu of the equations, then no disequality may be identical under it
    let mut mgu = Some(Subst::new());
    for a in &at {
        if let (Goal::Eq(l, r), Some(m)) = (a, &mgu) {
            mgu = unify(m, l, r);
        }
    }
    let fresh = |v: VarId| Term::Int(100_000 + v as i64);
    let fill = |m: &Subst| -> Vec<Term> { (0..p.nq).map(|i| m.apply(&Term::Var(i as VarId)).map_vars(&mut |v| fresh(v))).collect() };
    let satisfiable = match &mgu {
        None => false,
        Some(m) => at.iter().all(|a| match a {
            Goal::Diseq(l, r) => m.apply(l) != m.apply(r),
            _ => true,
        }),
    };
    let out = oracle::run_all(p, Mode::Bfs);
    if ctx.want_sample {
        let short: String = desc.chars().take(400).collect();
        info.sample = Some(json!({ "program (first 400 chars)": short, "disequalities": ndis, "satisfiable": satisfiable, "answers": out.answers.len() }));
    }
    if let run::End::Panic(pi) = &out.end {
        info.fail(format!("C02:panic:{}", pi.key()), format!("{}\n  panicked: {} at {}", desc, pi.message, pi.location));
        return info;
    }
    if !out.complete() {
        return CaseInfo { skip: Some("impl-incomplete"), ..info };
    }
    info.nontrivial = ndis >= 9 && at.iter().any(|a| matches!(a, Goal::Eq(..)));
    info.class(if satisfiable { "satisfiable" } else { "unsatisfiable" });
    if out.answers.len() != satisfiable as usize {
        info.fail(
            if satisfiable { "C02:scale:satisfiable-program-has-no-answer" } else { "C02:scale:unsatisfiable-program-has-an-answer" },
            format!("{}\n  answers {} but the conjunction is {}", desc, run::show_answers(&out.answers), if satisfiable { "satisfiable" } else { "unsatisfiable" }),
        );
        return info;
    }
    let m = match (&mgu, satisfiable) {
        (Some(m), true) => m.clone(),
        _ => return info,
    };
    let ans = &out.answers[0];
    let u = Universe(vec![Term::Int(200_001), Term::Int(200_002), Term::Nil]);
    // every stored disequality must still be visible in the answer: the tuple that violates it
    // (and satisfies all equations) must not be an instance of the answer
    let dis: Vec<(usize, &Term, &Term)> = at.iter().enumerate().filter_map(|(i, a)| if let Goal::Diseq(l, r) = a { Some((i, l, r)) } else { None }).collect();
    let mut violating: Vec<(usize, Vec<Term>)> = vec![];
    for (i, l, r) in &dis {
        if let Some(m2) = unify(&m, l, r) {
            let g = fill(&m2);
            debug_assert!(!formula_holds(&at, &g));
            if canon::instance_of(&g, ans, &u) == Some(true) {
                let gs: Vec<String> = g.iter().map(|t| crate::ast::show_term(t, 0)).collect();
                info.fail(
                    "C02:scale:answer-instance-violates-a-posted-disequality",
                    format!("{}\n  answer {}\n  the ground tuple {:?} violates atom #{} ({}) but is an instance of the answer", desc, run::show_answers(&out.answers), gs, i, crate::ast::show_goal(&at[*i], p.nq)),
                );
                return info;
            }
            violating.push((*i, g));
        }
    }
    // the generic solution must be an instance
    let g0 = fill(&m);
    let f0 = formula_holds(&at, &g0);
    if canon::instance_of(&g0, ans, &u) == Some(!f0) {
        let gs: Vec<String> = g0.iter().map(|t| crate::ast::show_term(t, 0)).collect();
        info.fail("C02:scale:generic-solution-not-covered", format!("{}\n  answer {}\n  ground tuple {:?}: formula = {}", desc, run::show_answers(&out.answers), gs, f0));
        return info;
    }
    // run the program extended with q == g for a few of those tuples, and under a permutation
    let q = oracle::permuted(p, s, false);
    let outq = oracle::run_all(&q, Mode::Bfs);
    if let run::End::Panic(pi) = &outq.end {
        info.fail(format!("C02:panic:{}", pi.key()), format!("{}\n  panicked: {} at {}", q.show(), pi.message, pi.location));
        return info;
    }
    if outq.complete() {
        info.class("permuted");
        if outq.answers.len() != 1 {
            info.fail("C02:scale:order-dependent", format!("{}\n  has one answer, but permuted\n{}\n  has {}", desc, q.show(), outq.answers.len()));
            return info;
        }
        for (i, g) in &violating {
            if canon::instance_of(g, &outq.answers[0], &u) == Some(true) {
                info.fail(
                    "C02:scale:order-dependent",
                    format!("{}\n  permuted: {}\n  answer {}\n  accepts a tuple violating atom #{} ({}) of the original", desc, q.show(), run::show_answers(&outq.answers), i, crate::ast::show_goal(&at[*i], p.nq)),
                );
                return info;
            }
        }
    }
    let mut tuples: Vec<(Vec<Term>, bool)> = vec![(g0, f0)];
    let nt = if ctx.tier == Tier::Thorough { 4 } else { 2 };
    for _ in 0..nt {
        if !violating.is_empty() {
            let k = s.below(violating.len());
            tuples.push((violating[k].1.clone(), false));
        }
    }
    for (k, (g, want)) in tuples.into_iter().enumerate() {
        for prog in [p, &q] {
            if ctx.tier == Tier::Quick && (k % 2 == 0) == std::ptr::eq(prog, &q) {
                // quick tier: alternate between the original and the permuted program
                continue;
            }
            let mut body = prog.body.clone();
            let eq = Goal::Eq(Term::list((0..p.nq).map(|i| Term::Var(i as VarId)).collect()), Term::list(g.clone()));
            // the grounding goes last or first
            if s.flag(80) {
                body.insert(0, eq);
            } else {
                body.push(eq);
            }
            let p2 = Program { nq: p.nq, body };
            let out2 = run::run(&p2, Mode::Bfs, Limits::all());
            if !out2.complete() {
                continue;
            }
            let has = !out2.answers.is_empty();
            if has != want {
                let gs: Vec<String> = g.iter().map(|t| crate::ast::show_term(t, 0)).collect();
                info.fail(
                    if has { "C02:ground-tuple-accepted-but-not-a-solution" } else { "C02:ground-solution-rejected" },
                    format!("{}\n  with q == {:?}: implementation has answer = {}, the ground formula is {}", p2.show(), gs, has, want),
                );
                return info;
            }
        }
    }
    info
}

fn run_scale(bytes: &[u8], ctx: &Ctx) -> CaseInfo {
    let mut s = Source::new(bytes);
    let p = decode_scale(&mut s, ctx.tier == Tier::Thorough);
    if std::env::var("PVH_SHOW").is_ok() {
        eprintln!("SHOW {}", p.show());
    }
    eval_scale(&p, &mut s, ctx)
}

fn fixed_example(ctx: &Ctx) -> CaseInfo {
    // the example of the property text
    let (x, y) = (Term::Var(0), Term::Var(1));
    let p = Program {
        nq: 2,
        body: vec![
            Goal::Diseq(x.clone(), Term::Int(5)),
            Goal::Diseq(Term::list(vec![x.clone(), y.clone()]), Term::ints(&[5, 6])),
            Goal::Eq(x.clone(), Term::Int(5)),
            Goal::Eq(y.clone(), Term::Int(7)),
        ],
    };
    let bytes = [0u8; 8];
    eval(&p, &mut Source::new(&bytes), ctx)
}

fn fixed_example_rev(ctx: &Ctx) -> CaseInfo {
    let (x, y) = (Term::Var(0), Term::Var(1));
    let p = Program {
        nq: 2,
        body: vec![
            Goal::Diseq(Term::list(vec![x.clone(), y.clone()]), Term::ints(&[5, 6])),
            Goal::Diseq(x.clone(), Term::Int(5)),
            Goal::Eq(y.clone(), Term::Int(7)),
            Goal::Eq(x.clone(), Term::Int(5)),
        ],
    };
    let bytes = [0u8; 8];
    eval(&p, &mut Source::new(&bytes), ctx)
}

pub fn def() -> PropertyDef {
    PropertyDef {
        id: "C02",
        rule: "pure tree programs (1-3 query variables, <=2 fresh variables, <=6 atoms from ==/!= over ints 0..3, proper/improper lists and Pair, nested conde/conjunction/fresh, plus a motif posting `x != c` and `[x,y] != [c,d]` in both orders followed by deciding bindings). Oracles: (A) multiset of answers equals the reference interpreter's (un-normalised disequalities; constraint sets compared on solved forms, else by enumerating assignments over a finite universe with more fresh atoms than disequalities), (B) for 6 ground tuples per case: `P, q == g` has an answer <=> reference holds(P,g) <=> g is an instance of some answer, (C) 4 random permutations of every conjunction give the same multiset, (D) for fresh-free disjunction-free programs: brute-force evaluation of the program as a ground formula over U^n (U closed under sub-terms) equals the union of the answers' instance sets. Non-trivial = program has both == and != and a disequality survives into an answer or kills a path; distinct = hash of the printed program. Family `scale`: flat conjunctions over 2-6 variables with up to 400 (thorough 1000) disequalities alive at once (x != k, x != y, [x,y] != [c,d], x != [c|y]), subsumption events and deciding equalities aimed at one stored constraint; judged without the interpreter: satisfiable iff the mgu of the equations makes no disequality identical; for EVERY disequality the tuple that violates it (and satisfies the equations) must not be an instance of the answer; the generic solution must be; the same under a permutation and for `P, q == g` runs (non-trivial there: >= 9 disequalities and an equation)",
        assumptions: vec![
            "reference interpreter (model/interp.rs) and unifier are correct; oracle (D) uses neither",
            "instance comparison is complete only relative to the finite universe, which always contains every program constant and more fresh atoms than there are disequalities",
        ],
        families: vec![
            Family { name: "tree", max_len: 160, quick: 60_000, thorough: 1_500_000, run: run_tree },
            Family { name: "flat", max_len: 120, quick: 40_000, thorough: 1_000_000, run: run_flat },
            Family { name: "scale", max_len: 96, quick: 8_000, thorough: 80_000, run: run_scale },
        ],
        fixed: vec![Fixed { name: "property-text-example", run: fixed_example }, Fixed { name: "property-text-example-reordered", run: fixed_example_rev }],
        witnesses: vec![],
        exhaustive: None,
        exhaustive_in_quick: false,
        custom: None,
        custom_replay: None,
    }
}
