//! C02 — disequality constraints are sound, complete and order-free.

use crate::ast::{Goal, Program, Term, VarId};
use crate::canon::{self, Universe};
use crate::framework::*;
use crate::gen::tree::{gen_program, TreeCfg};
use crate::model::interp;
use crate::oracle::{self, RefResult, Verdict};
use crate::run::{self, Limits, Mode};
use crate::source::{hash_str, Source};
use serde_json::json;

fn has_diseq(p: &Program) -> bool {
    p.body.iter().any(|g| g.any(&|x| matches!(x, Goal::Diseq(..))))
}

fn has_eq(p: &Program) -> bool {
    p.body.iter().any(|g| g.any(&|x| matches!(x, Goal::Eq(..))))
}

fn is_flat(p: &Program) -> bool {
    // all variables are query variables, no disjunction
    !p.body.iter().any(|g| g.any(&|x| matches!(x, Goal::Fresh(..) | Goal::Conde(..))))
}

fn atoms(g: &Goal, out: &mut Vec<Goal>) {
    match g {
        Goal::Eq(..) | Goal::Diseq(..) | Goal::Succeed | Goal::Fail => out.push(g.clone()),
        Goal::Conj(gs) => gs.iter().for_each(|x| atoms(x, out)),
        _ => {}
    }
}

/// closure of a universe under sub-terms
fn close_subterms(u: &mut Universe) {
    let mut i = 0;
    while i < u.0.len() {
        let t = u.0[i].clone();
        let mut push = |x: &Term| {
            if !u.0.contains(x) {
                u.0.push(x.clone());
            }
        };
        match &t {
            Term::Cons(h, tl) => {
                push(h);
                push(tl);
            }
            Term::Cmp(_, a) => a.iter().for_each(|x| push(x)),
            _ => {}
        }
        i += 1;
    }
}

fn subst_ground(t: &Term, g: &[Term]) -> Term {
    t.map_vars(&mut |v| g.get(v as usize).cloned().unwrap_or(Term::Var(v)))
}

/// (D) reference-free brute force for flat programs
fn brute_force(p: &Program, answers: &[run::Answer], u: &Universe) -> Option<(Vec<Term>, bool, bool)> {
    let mut at = vec![];
    p.body.iter().for_each(|g| atoms(g, &mut at));
    let n = u.0.len();
    let total = n.pow(p.nq as u32);
    for i in 0..total {
        let mut x = i;
        let mut g = vec![];
        for _ in 0..p.nq {
            g.push(u.0[x % n].clone());
            x /= n;
        }
        let formula = at.iter().all(|a| match a {
            Goal::Eq(l, r) => subst_ground(l, &g) == subst_ground(r, &g),
            Goal::Diseq(l, r) => subst_ground(l, &g) != subst_ground(r, &g),
            Goal::Fail => false,
            _ => true,
        });
        let mut covered = false;
        for a in answers {
            match canon::instance_of(&g, a, u) {
                Some(true) => {
                    covered = true;
                    break;
                }
                Some(false) => {}
                None => return None,
            }
        }
        if formula != covered {
            return Some((g, formula, covered));
        }
    }
    None
}

pub fn eval(p: &Program, s: &mut Source, ctx: &Ctx) -> CaseInfo {
    let mut info = CaseInfo::default();
    let desc = p.show();
    info.key = hash_str(&desc);
    if ctx.want_sample {
        info.sample = Some(json!({ "program": desc }));
    }
    let out = oracle::run_all(p, Mode::Bfs);
    let fresh = canon::count_diseqs(p) + 2;
    let u = canon::universe(&[p], &[], fresh, 9);
    // (A) against the reference interpreter
    let reference = match oracle::reference_answers(p) {
        RefResult::Answers(a) => a,
        RefResult::Skip(w) => return CaseInfo { skip: Some(w), ..info },
    };
    let diseq_alive = out.answers.iter().any(|a| !a.cons.is_empty());
    let killed = has_diseq(p) && {
        // a path killed by a disequality: the program without its disequalities has more answers
        let stripped = strip_diseqs(p);
        match oracle::reference_answers(&stripped) {
            RefResult::Answers(a2) => a2.len() > reference.len(),
            _ => false,
        }
    };
    info.nontrivial = has_diseq(p) && has_eq(p) && (diseq_alive || killed);
    if diseq_alive {
        info.class("constraint-in-answer");
    }
    if killed {
        info.class("path-killed-by-diseq");
    }
    if out.meta.iter().any(|m| m.hidden_vars > 0) {
        info.class("hidden-variable-in-constraint");
    }
    if reference.len() > 1 {
        info.class("several-answers");
    }
    if ctx.want_sample {
        info.sample = Some(json!({ "program": desc, "answers": run::show_answers(&out.answers), "reference": run::show_answers(&reference) }));
    }
    match oracle::compare_with_reference("C02", p, &out, &reference, &u) {
        Verdict::Ok => {}
        Verdict::Skip(w) => return CaseInfo { skip: Some(w), ..info },
        Verdict::Fail(sig, detail) => {
            info.fail(sig, detail);
            return info;
        }
    }
    // (B) ground tuples: P ∧ q == g has an answer  <=>  reference holds(P, g)  <=>  g is an
    // instance of some answer
    let ntuples = 6;
    for i in 0..ntuples {
        let g: Vec<Term> = if i < 3 && !out.answers.is_empty() {
            // instance derived from an answer
            let a = &out.answers[s.below(out.answers.len())];
            a.terms.iter().map(|t| t.map_vars(&mut |v| u.0[(v as usize * 7 + i + 1) % u.0.len()].clone())).collect()
        } else {
            oracle::ground_tuple(s, &u, p.nq)
        };
        let mut body = p.body.clone();
        body.push(Goal::Eq(Term::list((0..p.nq).map(|i| Term::Var(i as VarId)).collect()), Term::list(g.clone())));
        let p2 = Program { nq: p.nq, body };
        let out2 = run::run(&p2, Mode::Bfs, Limits::all());
        if !out2.complete() {
            continue;
        }
        let has = !out2.answers.is_empty();
        let rf = match interp::holds(p, &g, oracle::REF_FUEL) {
            Ok(b) => b,
            Err(_) => continue,
        };
        let mut inst = Some(false);
        for a in &out.answers {
            match canon::instance_of(&g, a, &u) {
                Some(true) => {
                    inst = Some(true);
                    break;
                }
                Some(false) => {}
                None => {
                    inst = None;
                    break;
                }
            }
        }
        let gs: Vec<String> = g.iter().map(|t| crate::ast::show_term(t, 0)).collect();
        if has != rf {
            info.fail(
                if has { "C02:ground-tuple-accepted-but-not-a-solution" } else { "C02:ground-solution-rejected" },
                format!("{}\n  extended with q == {:?}: implementation has answer = {}, reference holds = {}", desc, gs, has, rf),
            );
            return info;
        }
        if let Some(b) = inst {
            if b != rf {
                info.fail(
                    if b { "C02:answer-instance-is-not-a-solution" } else { "C02:solution-not-covered-by-any-answer" },
                    format!("{}\n  answers {}\n  ground tuple {:?}: instance of an answer = {}, reference holds = {}", desc, run::show_answers(&out.answers), gs, b, rf),
                );
                return info;
            }
        }
    }
    // (C) permutations of every conjunction
    for _ in 0..4 {
        let q = oracle::permuted(p, s, false);
        if q == *p {
            continue;
        }
        let outq = oracle::run_all(&q, Mode::Bfs);
        if !outq.complete() {
            if let run::End::Panic(pi) = &outq.end {
                info.fail(format!("C02:panic:{}", pi.key()), format!("{}\n  panicked: {} at {}", q.show(), pi.message, pi.location));
                return info;
            }
            continue;
        }
        info.class("permuted");
        match canon::multiset_cmp(&out.answers, &outq.answers, &u) {
            Ok(None) => {}
            Err(()) => {}
            Ok(Some(d)) => {
                info.fail(
                    "C02:order-dependent",
                    format!(
                        "{}\n  answers {}\n  permuted: {}\n  answers {}\n  only original: {}\n  only permuted: {}",
                        desc,
                        run::show_answers(&out.answers),
                        q.show(),
                        run::show_answers(&outq.answers),
                        run::show_answers(&d.only_left),
                        run::show_answers(&d.only_right)
                    ),
                );
                return info;
            }
        }
    }
    // (D) brute force without any interpreter, flat programs only
    if is_flat(p) && p.nq <= 3 {
        let mut ud = canon::universe(&[p], &[], fresh.min(3), 10);
        close_subterms(&mut ud);
        if ud.0.len() <= 16 {
            info.class("brute-force-checked");
            if let Some((g, formula, covered)) = brute_force(p, &out.answers, &ud) {
                let gs: Vec<String> = g.iter().map(|t| crate::ast::show_term(t, 0)).collect();
                info.fail(
                    if covered { "C02:brute-force:unsound-answer" } else { "C02:brute-force:missing-solution" },
                    format!("{}\n  answers {}\n  ground tuple {:?}: satisfies the program = {}, instance of an answer = {}", desc, run::show_answers(&out.answers), gs, formula, covered),
                );
            }
        }
    }
    info
}

fn strip_diseqs(p: &Program) -> Program {
    fn strip(g: &Goal) -> Goal {
        match g {
            Goal::Diseq(..) => Goal::Succeed,
            Goal::Conj(gs) => Goal::Conj(gs.iter().map(strip).collect()),
            Goal::Fresh(v, gs) => Goal::Fresh(v.clone(), gs.iter().map(strip).collect()),
            Goal::Conde(c) => Goal::Conde(c.iter().map(|gs| gs.iter().map(strip).collect()).collect()),
            g => g.clone(),
        }
    }
    Program { nq: p.nq, body: p.body.iter().map(strip).collect() }
}

fn run_tree(bytes: &[u8], ctx: &Ctx) -> CaseInfo {
    let mut s = Source::new(bytes);
    let p = gen_program(&mut s, &TreeCfg::c02());
    eval(&p, &mut s, ctx)
}

fn run_flat(bytes: &[u8], ctx: &Ctx) -> CaseInfo {
    let mut s = Source::new(bytes);
    let mut cfg = TreeCfg::c02();
    cfg.conde = false;
    cfg.fresh = false;
    cfg.nq_max = 3;
    cfg.max_atoms = 5;
    let p = gen_program(&mut s, &cfg);
    eval(&p, &mut s, ctx)
}

fn fixed_example(ctx: &Ctx) -> CaseInfo {
    // the example of the property text
    let (x, y) = (Term::Var(0), Term::Var(1));
    let p = Program {
        nq: 2,
        body: vec![
            Goal::Diseq(x.clone(), Term::Int(5)),
            Goal::Diseq(Term::list(vec![x.clone(), y.clone()]), Term::ints(&[5, 6])),
            Goal::Eq(x.clone(), Term::Int(5)),
            Goal::Eq(y.clone(), Term::Int(7)),
        ],
    };
    let bytes = [0u8; 8];
    eval(&p, &mut Source::new(&bytes), ctx)
}

fn fixed_example_rev(ctx: &Ctx) -> CaseInfo {
    let (x, y) = (Term::Var(0), Term::Var(1));
    let p = Program {
        nq: 2,
        body: vec![
            Goal::Diseq(Term::list(vec![x.clone(), y.clone()]), Term::ints(&[5, 6])),
            Goal::Diseq(x.clone(), Term::Int(5)),
            Goal::Eq(y.clone(), Term::Int(7)),
            Goal::Eq(x.clone(), Term::Int(5)),
        ],
    };
    let bytes = [0u8; 8];
    eval(&p, &mut Source::new(&bytes), ctx)
}

pub fn def() -> PropertyDef {
    PropertyDef {
        id: "C02",
        rule: "pure tree programs (1-3 query variables, <=2 fresh variables, <=6 atoms from ==/!= over ints 0..3, proper/improper lists and Pair, nested conde/conjunction/fresh, plus a motif posting `x != c` and `[x,y] != [c,d]` in both orders followed by deciding bindings). Oracles: (A) multiset of answers equals the reference interpreter's (un-normalised disequalities; constraint sets compared on solved forms, else by enumerating assignments over a finite universe with more fresh atoms than disequalities), (B) for 6 ground tuples per case: `P, q == g` has an answer <=> reference holds(P,g) <=> g is an instance of some answer, (C) 4 random permutations of every conjunction give the same multiset, (D) for fresh-free disjunction-free programs: brute-force evaluation of the program as a ground formula over U^n (U closed under sub-terms) equals the union of the answers' instance sets. Non-trivial = program has both == and != and a disequality survives into an answer or kills a path; distinct = hash of the printed program",
        assumptions: vec![
            "reference interpreter (model/interp.rs) and unifier are correct; oracle (D) uses neither",
            "instance comparison is complete only relative to the finite universe, which always contains every program constant and more fresh atoms than there are disequalities",
        ],
        families: vec![
            Family { name: "tree", max_len: 160, quick: 60_000, thorough: 1_500_000, run: run_tree },
            Family { name: "flat", max_len: 120, quick: 40_000, thorough: 1_000_000, run: run_flat },
        ],
        fixed: vec![Fixed { name: "property-text-example", run: fixed_example }, Fixed { name: "property-text-example-reordered", run: fixed_example_rev }],
        witnesses: vec![],
        exhaustive: None,
        exhaustive_in_quick: false,
        custom: None,
        custom_replay: None,
    }
}
