//! C04 — reordering conjuncts or disjuncts preserves the answer multiset.

use crate::ast::{FdGoal, Goal, Program, Term, VarId};
use crate::canon;
use crate::framework::*;
use crate::gen::fd::{gen_case, FdCfg, QueryShape};
use crate::gen::tree::{gen_program, TreeCfg};
use crate::oracle;
use crate::run::{self, End, Limits, Mode};
use crate::source::{hash_str, Source};
use serde_json::json;

fn shares_var(a: &Goal, b: &Goal) -> bool {
    let (mut va, mut vb) = (vec![], vec![]);
    a.visit_vars(&mut |v| va.push(v));
    b.visit_vars(&mut |v| vb.push(v));
    va.iter().any(|x| vb.contains(x))
}

/// are two goals that share a variable actually swapped somewhere between p and q?
fn moved_sharing(p: &[Goal], q: &[Goal]) -> bool {
    for i in 0..p.len() {
        for j in i + 1..p.len() {
            if shares_var(&p[i], &p[j]) {
                let pi = q.iter().position(|g| *g == p[i]);
                let pj = q.iter().position(|g| *g == p[j]);
                if let (Some(a), Some(b)) = (pi, pj) {
                    if a > b {
                        return true;
                    }
                }
            }
        }
    }
    false
}

fn compare(p: &Program, q: &Program, info: &mut CaseInfo, u: &canon::Universe, base: &run::Outcome) -> bool {
    let outq = run::run(q, Mode::Bfs, Limits { max_answers: 3000, budget: 2_000_000 });
    match &outq.end {
        End::Panic(pi) => {
            info.fail(format!("C04:panic:{}", pi.key()), format!("{}\n  panicked: {} at {}", q.show(), pi.message, pi.location));
            return false;
        }
        End::Exhausted => {}
        _ => return true,
    }
    match canon::multiset_cmp(&base.answers, &outq.answers, u) {
        Ok(None) => true,
        Err(()) => true,
        Ok(Some(d)) => {
            info.fail(
                "C04:answers-differ-after-reordering",
                format!(
                    "{}\n  answers {}\n  reordered: {}\n  answers {}\n  only original: {}\n  only reordered: {}",
                    p.show(),
                    run::show_answers(&base.answers),
                    q.show(),
                    run::show_answers(&outq.answers),
                    run::show_answers(&d.only_left),
                    run::show_answers(&d.only_right)
                ),
            );
            false
        }
    }
}

fn run_tree(bytes: &[u8], ctx: &Ctx) -> CaseInfo {
    let mode = (bytes.iter().map(|b| *b as u32).sum::<u32>() % 3) as u8;
    crate::build::with_api_mode(mode, || run_tree_inner(bytes, ctx))
}

fn run_tree_inner(bytes: &[u8], ctx: &Ctx) -> CaseInfo {
    let mut s = Source::new(bytes);
    let p = gen_program(&mut s, &TreeCfg::c02());
    let mut info = CaseInfo::default();
    let desc = p.show();
    info.key = hash_str(&desc);
    let base = run::run(&p, Mode::Bfs, Limits::all());
    if let Some((why, pi)) = oracle::describe_end(&base) {
        if let Some(pi) = pi {
            info.fail(format!("C04:panic:{}", pi.key()), format!("{}\n  panicked: {} at {}", desc, pi.message, pi.location));
            return info;
        }
        return CaseInfo { skip: Some(why), ..info };
    }
    let u = canon::universe(&[&p], &[], canon::count_diseqs(&p) + 2, 9);
    let mut variants = vec![];
    for _ in 0..6 {
        let q = oracle::permuted(&p, &mut s, true);
        if q != p && !variants.contains(&q) {
            variants.push(q);
        }
    }
    if ctx.want_sample {
        info.sample = Some(json!({ "program": desc, "answers": run::show_answers(&base.answers), "reordered_variants": variants.iter().map(|q| q.show()).collect::<Vec<_>>() }));
    }
    for q in &variants {
        if moved_sharing(&p.body, &q.body) && !base.answers.is_empty() {
            info.nontrivial = true;
        }
        if p.body.iter().any(|g| matches!(g, Goal::Conde(..))) {
            info.class("disjunction-present");
        }
        if !compare(&p, q, &mut info, &u, &base) {
            return info;
        }
    }
    info.class("tree-profile");
    info
}

fn run_fd(bytes: &[u8], ctx: &Ctx) -> CaseInfo {
    let mut s = Source::new(bytes);
    let mut cfg = FdCfg::full();
    cfg.shapes = false;
    cfg.hidden = false;
    let mut c = gen_case(&mut s, &cfg);
    c.shape = QueryShape::Plain;
    // add a disjunction over bindings or constraints
    if s.flag(150) {
        let v = Term::Var(s.below(c.nvars) as VarId);
        let w = Term::Var(s.below(c.nvars) as VarId);
        let g = match s.below(3) {
            0 => Goal::Conde(vec![vec![Goal::Eq(v.clone(), Term::Int(s.range(-2, 3)))], vec![Goal::Eq(v.clone(), Term::Int(s.range(-2, 3)))]]),
            1 => Goal::Conde(vec![vec![Goal::Fd(FdGoal::Lte(v.clone(), w.clone()))], vec![Goal::Fd(FdGoal::Lt(w.clone(), v.clone()))]]),
            _ => Goal::Conde(vec![vec![Goal::Fd(FdGoal::Diseq(v.clone(), w.clone()))], vec![Goal::Eq(v.clone(), w.clone())], vec![Goal::Fd(FdGoal::Plus(v.clone(), Term::Int(1), w.clone()))]]),
        };
        let pos = s.below(c.goals.len() + 1);
        c.goals.insert(pos, g);
    }
    let p = c.program();
    let mut info = CaseInfo::default();
    let desc = p.show();
    info.key = hash_str(&desc);
    let base = run::run(&p, Mode::Bfs, Limits { max_answers: 3000, budget: 2_000_000 });
    if let Some((why, pi)) = oracle::describe_end(&base) {
        if let Some(pi) = pi {
            info.fail(format!("C04:panic:{}", pi.key()), format!("{}\n  panicked: {} at {}", desc, pi.message, pi.location));
            return info;
        }
        return CaseInfo { skip: Some(why), ..info };
    }
    let u = canon::Universe(vec![]);
    let mut variants = vec![];
    for _ in 0..6 {
        let q = oracle::permuted(&p, &mut s, true);
        if q != p && !variants.contains(&q) {
            variants.push(q);
        }
    }
    if ctx.want_sample {
        info.sample = Some(json!({ "program": desc, "answers": run::show_answers(&base.answers), "reordered_variants": variants.iter().map(|q| q.show()).collect::<Vec<_>>() }));
    }
    info.class("fd-profile");
    // classes: domain posted after a constraint on the same variable in some variant
    for q in &variants {
        if moved_sharing(&p.body, &q.body) && !base.answers.is_empty() {
            info.nontrivial = true;
        }
        if let (Some(Goal::Fd(f)), true) = (q.body.first(), true) {
            if !matches!(f, FdGoal::InFd(..) | FdGoal::InFdRange(..)) {
                info.class("constraint-before-domain");
            }
        }
        if !compare(&p, q, &mut info, &u, &base) {
            return info;
        }
    }
    info
}

/// Reordering with one large dimension: hundreds of disequalities / goals / clauses / domain values.
fn run_scale(bytes: &[u8], ctx: &Ctx) -> CaseInfo {
    use crate::props::scale_mix::{any_program_opts, ScaleKind};
    let mut s = Source::new(bytes);
    let (p, kind) = any_program_opts(&mut s, ctx.tier == Tier::Thorough, false);
    let mut info = CaseInfo::default();
    let desc = p.show();
    if std::env::var("PVH_SHOW").is_ok() {
        eprintln!("SHOW {} {}", kind.label(), desc.chars().take(300).collect::<String>());
    }
    info.key = hash_str(&desc);
    info.class(kind.label());
    let lim = Limits { max_answers: 5000, budget: 6_000_000 };
    let base = run::run(&p, Mode::Bfs, lim);
    if let Some((why, pi)) = oracle::describe_end(&base) {
        if let Some(pi) = pi {
            info.fail(format!("C04:panic:{}", pi.key()), format!("{}\n  panicked: {} at {}", desc, pi.message, pi.location));
            return info;
        }
        return CaseInfo { skip: Some(why), ..info };
    }
    let u = if kind == ScaleKind::WideDomains { canon::Universe(vec![]) } else { canon::universe(&[&p], &[], 3, 6) };
    let nvar = if ctx.tier == Tier::Thorough { 4 } else { 2 };
    let mut variants = vec![];
    for _ in 0..nvar {
        let q = oracle::permuted(&p, &mut s, true);
        if q != p && !variants.contains(&q) {
            variants.push(q);
        }
    }
    if ctx.want_sample {
        info.sample = Some(json!({ "program": desc, "answers": base.answers.len(), "reordered_variants": variants.len() }));
        truncate_sample(&mut info, 400);
    }
    for q in &variants {
        if moved_sharing(&p.body, &q.body) && !base.answers.is_empty() {
            info.nontrivial = true;
        }
        let outq = run::run(q, Mode::Bfs, lim);
        match &outq.end {
            End::Panic(pi) => {
                info.fail(format!("C04:panic:{}", pi.key()), format!("{}\n  panicked: {} at {}", q.show(), pi.message, pi.location));
                return info;
            }
            End::Exhausted => {}
            _ => continue,
        }
        match canon::multiset_cmp(&base.answers, &outq.answers, &u) {
            Ok(None) | Err(()) => {}
            Ok(Some(d)) => {
                let cut = |x: String| if x.len() > 1500 { format!("{} ... ({} chars)", x.chars().take(1500).collect::<String>(), x.len()) } else { x };
                info.fail(
                    "C04:answers-differ-after-reordering",
                    format!("{}\n  reordered: {}\n  only original: {}\n  only reordered: {}", cut(p.show()), cut(q.show()), cut(run::show_answers(&d.only_left)), cut(run::show_answers(&d.only_right))),
                );
                return info;
            }
        }
    }
    info
}

pub fn def() -> PropertyDef {
    PropertyDef {
        id: "C04",
        rule: "two profiles. Tree: family T programs (==, !=, conde, fresh, subsuming-pair motif). FD: flat CLP(FD) programs (<=4 variables, signed interval/sparse domains, every constraint kind, ==, aliasing) with an optional conde over bindings or constraints inserted at a random position. Oracle (metamorphic): up to 6 random permutations of every conjunction (top level, conj, fresh bodies, clause bodies) and of every clause list give the same answer multiset (tree: instance-set equivalence; FD: ground tuples). Non-trivial = two goals sharing a variable change their relative order and the program has >=1 answer; distinct = hash of the printed program",
        assumptions: vec!["no committed choice, project or loops are generated (excluded by the property)"],
        families: vec![
            Family { name: "tree", max_len: 200, quick: 60_000, thorough: 1_500_000, run: run_tree },
            Family { name: "fd", max_len: 160, quick: 80_000, thorough: 2_000_000, run: run_fd },
            Family { name: "scale", max_len: 96, quick: 8_000, thorough: 80_000, run: run_scale },
        ],
        fixed: vec![],
        witnesses: vec![],
        exhaustive: None,
        exhaustive_in_quick: false,
        custom: None,
        custom_replay: None,
    }
}
