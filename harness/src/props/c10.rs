//! C10 — search branches are isolated from each other.

use crate::ast::{FdGoal, Goal, Program, Term, VarId, ZGoal};
use crate::canon;
use crate::framework::*;
use crate::run::{self, Answer, End, Limits, Mode};
use crate::source::{hash_str, Source};
use serde_json::json;

const NQ: usize = 4; // q0..q2 data, q3 = user counter read at the end

struct Gen<'a, 'b> {
    s: &'a mut Source<'b>,
    fd: bool,
}

impl<'a, 'b> Gen<'a, 'b> {
    fn var(&mut self) -> Term {
        Term::Var(self.s.below(3) as VarId)
    }
    fn int(&mut self) -> Term {
        Term::Int(self.s.range(0, 4))
    }
    fn operand(&mut self) -> Term {
        if self.s.flag(90) {
            self.int()
        } else {
            self.var()
        }
    }
    fn tree_term(&mut self) -> Term {
        match self.s.below(4) {
            0 => self.int(),
            1 => self.var(),
            2 => {
                let a = self.operand();
                let b = self.operand();
                Term::list(vec![a, b])
            }
            _ => {
                let a = self.operand();
                Term::cons(a, self.var())
            }
        }
    }
    fn goal(&mut self, branch: bool) -> Goal {
        if self.fd {
            let mut w = [4u32, 3, 2, 2, 2, 2, 2, 2];
            if !branch {
                w[6] = 4;
            }
            match self.s.weighted(&w) {
                0 => Goal::Eq(self.var(), self.int()),
                1 => Goal::Fd(FdGoal::Lte(self.operand(), self.operand())),
                2 => Goal::Fd(FdGoal::Diseq(self.operand(), self.operand())),
                3 => Goal::Fd(FdGoal::Plus(self.operand(), self.operand(), self.operand())),
                4 => Goal::Fd(FdGoal::Lt(self.operand(), self.operand())),
                5 => Goal::UserUpd(1 + self.s.below(3) as i64),
                6 => Goal::Fd(FdGoal::Distinct(Term::list(vec![Term::Var(0), Term::Var(1), Term::Var(2)]))),
                _ => {
                    let a = self.s.range(0, 4);
                    let b = self.s.range(a, 4);
                    Goal::Fd(FdGoal::InFdRange(self.var(), a, b))
                }
            }
        } else {
            match self.s.weighted(&[4, 3, 2, 2, 2]) {
                0 => Goal::Eq(self.var(), self.tree_term()),
                1 => Goal::Diseq(self.var(), self.tree_term()),
                2 => Goal::Z(ZGoal::Plus(self.operand(), self.operand(), self.operand())),
                3 => Goal::Z(ZGoal::Times(self.operand(), self.operand(), self.operand())),
                _ => Goal::UserUpd(1 + self.s.below(3) as i64),
            }
        }
    }
    fn branch(&mut self) -> Vec<Goal> {
        let n = 1 + self.s.below(3);
        (0..n).map(|_| self.goal(true)).collect()
    }
}

#[derive(Clone, Debug)]
pub struct Case {
    pub prefix: Vec<Goal>,
    pub branches: Vec<Vec<Goal>>,
}

fn decode(s: &mut Source) -> Case {
    let fd = s.flag(128);
    let mut g = Gen { s, fd };
    let mut prefix = vec![];
    if fd {
        // every FD variable gets a domain in the shared prefix
        let a = g.s.range(0, 2);
        let b = g.s.range(a + 1, 4);
        prefix.push(Goal::Fd(FdGoal::InFdRange(Term::list(vec![Term::Var(0), Term::Var(1), Term::Var(2)]), a, b)));
    }
    let np = g.s.below(4);
    for _ in 0..np {
        prefix.push(g.goal(false));
    }
    let nb = 2 + if g.s.flag(60) { 1 } else { 0 };
    let branches = (0..nb).map(|_| g.branch()).collect();
    Case { prefix, branches }
}

fn prog(prefix: &[Goal], middle: Goal) -> Program {
    let mut body = prefix.to_vec();
    body.push(middle);
    body.push(Goal::ReadUser(Term::Var(3)));
    Program { nq: NQ, body }
}

fn run1(p: &Program) -> Result<Vec<Answer>, Option<crate::guard::PanicInfo>> {
    let o = run::run(p, Mode::Bfs, Limits { max_answers: 3000, budget: 2_000_000 });
    match o.end {
        End::Exhausted => Ok(o.answers),
        End::Panic(pi) => Err(Some(pi)),
        _ => Err(None),
    }
}

pub fn eval(c: &Case, ctx: &Ctx) -> CaseInfo {
    let mut info = CaseInfo::default();
    let whole = prog(&c.prefix, Goal::Conde(c.branches.clone()));
    let desc = whole.show();
    info.key = hash_str(&desc);
    let mut union: Vec<Answer> = vec![];
    let mut per = vec![];
    for b in &c.branches {
        let p = prog(&c.prefix, Goal::Conj(b.clone()));
        match run1(&p) {
            Ok(a) => {
                per.push(a.len());
                union.extend(a);
            }
            Err(Some(pi)) => {
                info.fail(format!("C10:panic:{}", pi.key()), format!("{}\n  panicked: {} at {}", p.show(), pi.message, pi.location));
                return info;
            }
            Err(None) => return CaseInfo { skip: Some("incomplete"), ..info },
        }
    }
    let mut shared = 0;
    for b in &c.branches {
        let mut pv = vec![];
        c.prefix.iter().for_each(|g| g.visit_vars(&mut |v| pv.push(v)));
        let mut bv = vec![];
        b.iter().for_each(|g| g.visit_vars(&mut |v| bv.push(v)));
        if bv.iter().any(|v| pv.contains(v)) || b.iter().any(|g| matches!(g, Goal::UserUpd(_))) {
            shared += 1;
        }
    }
    info.nontrivial = per.iter().filter(|n| **n > 0).count() >= 2 && !c.prefix.is_empty() && shared >= 2;
    if c.prefix.iter().any(|g| matches!(g, Goal::Fd(_))) {
        info.class("fd-prefix");
    } else {
        info.class("tree-clpz-prefix");
    }
    if c.branches.iter().any(|b| b.iter().any(|g| matches!(g, Goal::UserUpd(_)))) {
        info.class("user-state-updated-in-a-branch");
    }
    if c.prefix.iter().any(|g| matches!(g, Goal::Fd(FdGoal::Distinct(_)))) {
        info.class("distinctfd-in-prefix");
    }
    if c.branches.len() == 3 {
        info.class("three-branches");
    }
    let u = canon::universe(&[&whole], &[], canon::count_diseqs(&whole) + 2, 9);
    let mut orders: Vec<Vec<Vec<Goal>>> = vec![c.branches.clone()];
    let mut rev = c.branches.clone();
    rev.reverse();
    orders.push(rev);
    for (i, br) in orders.iter().enumerate() {
        let p = prog(&c.prefix, Goal::Conde(br.clone()));
        let got = match run1(&p) {
            Ok(a) => a,
            Err(Some(pi)) => {
                info.fail(format!("C10:panic:{}", pi.key()), format!("{}\n  panicked: {} at {}", p.show(), pi.message, pi.location));
                return info;
            }
            Err(None) => return CaseInfo { skip: Some("incomplete"), ..info },
        };
        if i == 0 && ctx.want_sample {
            info.sample = Some(json!({ "program": desc, "answers": run::show_answers(&got), "union_of_branches_run_alone": run::show_answers(&union), "answers_per_branch": per }));
        }
        match canon::multiset_cmp(&got, &union, &u) {
            Ok(None) => {}
            Err(()) => return CaseInfo { skip: Some("too-big"), ..info },
            Ok(Some(d)) => {
                info.fail(
                    "C10:disjunction-differs-from-union-of-branches",
                    format!(
                        "{}\n  answers: {}\n  union of the branches run alone after the same prefix: {}\n  only in the disjunction: {}\n  only in the union: {}",
                        p.show(),
                        run::show_answers(&got),
                        run::show_answers(&union),
                        run::show_answers(&d.only_left),
                        run::show_answers(&d.only_right)
                    ),
                );
                return info;
            }
        }
    }
    info
}

fn run_family(bytes: &[u8], ctx: &Ctx) -> CaseInfo {
    let mut s = Source::new(bytes);
    let c = decode(&mut s);
    eval(&c, ctx)
}

fn fixed_distinct(ctx: &Ctx) -> CaseInfo {
    // shared distinctfd constraint object updated in one branch
    let c = Case {
        prefix: vec![
            Goal::Fd(FdGoal::InFdRange(Term::list(vec![Term::Var(0), Term::Var(1), Term::Var(2)]), 0, 2)),
            Goal::Fd(FdGoal::Distinct(Term::list(vec![Term::Var(0), Term::Var(1), Term::Var(2)]))),
            Goal::UserUpd(1),
        ],
        branches: vec![vec![Goal::Eq(Term::Var(0), Term::Int(0)), Goal::UserUpd(2)], vec![Goal::Eq(Term::Var(1), Term::Int(0))], vec![Goal::Eq(Term::Var(2), Term::Int(2)), Goal::UserUpd(3)]],
    };
    eval(&c, ctx)
}

pub fn run_family_pub(bytes: &[u8], ctx: &Ctx) -> CaseInfo {
    run_family(bytes, ctx)
}

pub fn def() -> PropertyDef {
    PropertyDef {
        id: "C10",
        rule: "a shared prefix (tree/CLP(Z) profile: ==, != over lists, pending plusz/timesz, user-state updates; FD profile: a domain for all three variables, distinctfd, ltefd/ltfd/plusfd/diseqfd, ==, user-state updates) followed by 2-3 branch goals of 1-3 goals each from the same vocabulary; the user counter is exposed in a fourth query variable by an fngoal at the end. Oracle (metamorphic): multiset(prefix, conde{A,B[,C]}) = multiset(prefix, A) + multiset(prefix, B) [+ …], also with the branches in reverse order. Non-trivial = >=2 branches have answers, the prefix is non-empty and >=2 branches touch a prefix variable or the user state; distinct = hash of the printed program",
        assumptions: vec!["answers compared up to renaming and constraint equivalence"],
        families: vec![Family { name: "prefix-branches", max_len: 120, quick: 120_000, thorough: 3_000_000, run: run_family }],
        fixed: vec![Fixed { name: "shared-distinctfd-and-user-state", run: fixed_distinct }],
        witnesses: vec![],
        exhaustive: None,
        exhaustive_in_quick: false,
        custom: None,
        custom_replay: None,
    }
}
