//! C10 — search branches are isolated from each other.

use crate::ast::{FdGoal, Goal, Program, Term, VarId, ZGoal};
use crate::canon;
use crate::framework::*;
use crate::run::{self, Answer, End, Limits, Mode};
use crate::source::{hash_str, Source};
use serde_json::json;



struct Gen<'a, 'b> {
    s: &'a mut Source<'b>,
    fd: bool,
    /// number of data variables
    nd: usize,
}

impl<'a, 'b> Gen<'a, 'b> {
    fn var(&mut self) -> Term {
        Term::Var(self.s.below(self.nd) as VarId)
    }
    fn int(&mut self) -> Term {
        Term::Int(self.s.range(0, 4))
    }
    fn operand(&mut self) -> Term {
        if self.s.flag(90) {
            self.int()
        } else {
            self.var()
        }
    }
    fn tree_term(&mut self) -> Term {
        match self.s.below(4) {
            0 => self.int(),
            1 => self.var(),
            2 => {
                let a = self.operand();
                let b = self.operand();
                Term::list(vec![a, b])
            }
            _ => {
                let a = self.operand();
                Term::cons(a, self.var())
            }
        }
    }
    fn goal(&mut self, branch: bool) -> Goal {
        if self.fd {
            let mut w = [4u32, 3, 2, 2, 2, 2, 2, 2];
            if !branch {
                w[6] = 4;
            }
            match self.s.weighted(&w) {
                0 => Goal::Eq(self.var(), self.int()),
                1 => Goal::Fd(FdGoal::Lte(self.operand(), self.operand())),
                2 => Goal::Fd(FdGoal::Diseq(self.operand(), self.operand())),
                3 => Goal::Fd(FdGoal::Plus(self.operand(), self.operand(), self.operand())),
                4 => Goal::Fd(FdGoal::Lt(self.operand(), self.operand())),
                5 => Goal::UserUpd(1 + self.s.below(3) as i64),
                6 => Goal::Fd(FdGoal::Distinct(Term::list((0..self.nd).map(|v| Term::Var(v as VarId)).collect()))),
                _ => {
                    let a = self.s.range(0, 4);
                    let b = self.s.range(a, 4);
                    Goal::Fd(FdGoal::InFdRange(self.var(), a, b))
                }
            }
        } else {
            match self.s.weighted(&[4, 3, 2, 2, 2]) {
                0 => Goal::Eq(self.var(), self.tree_term()),
                1 => Goal::Diseq(self.var(), self.tree_term()),
                2 => Goal::Z(ZGoal::Plus(self.operand(), self.operand(), self.operand())),
                3 => Goal::Z(ZGoal::Times(self.operand(), self.operand(), self.operand())),
                _ => Goal::UserUpd(1 + self.s.below(3) as i64),
            }
        }
    }
    fn branch(&mut self) -> Vec<Goal> {
        // branches made of constant goals only (`true`, `false`, `[true, true]`)
        if self.s.flag(16) {
            return match self.s.below(3) {
                0 => vec![Goal::Succeed],
                1 => vec![Goal::Fail],
                _ => vec![Goal::Succeed, Goal::Succeed],
            };
        }
        let n = 1 + self.s.below(3);
        (0..n).map(|_| self.goal(true)).collect()
    }
}

#[derive(Clone, Debug)]
pub struct Case {
    pub prefix: Vec<Goal>,
    pub branches: Vec<Vec<Goal>>,
    /// goals after the disjunction (late domains)
    pub suffix: Vec<Goal>,
    /// number of data variables; the user counter is read into the query variable after them
    pub nd: usize,
}

fn decode(s: &mut Source) -> Case {
    let fd = s.flag(128);
    let mut g = Gen { s, fd, nd: 3 };
    let mut prefix = vec![];
    if fd {
        // every FD variable gets a domain in the shared prefix
        let a = g.s.range(0, 2);
        let b = g.s.range(a + 1, 4);
        prefix.push(Goal::Fd(FdGoal::InFdRange(Term::list(vec![Term::Var(0), Term::Var(1), Term::Var(2)]), a, b)));
    }
    let np = g.s.below(4);
    for _ in 0..np {
        prefix.push(g.goal(false));
    }
    let nb = 2 + if g.s.flag(60) { 1 } else { 0 };
    let branches = (0..nb).map(|_| g.branch()).collect();
    Case { prefix, branches, suffix: vec![], nd: 3 }
}

fn prog(c: &Case, middle: Goal) -> Program {
    let mut body = c.prefix.to_vec();
    body.push(middle);
    body.extend(c.suffix.iter().cloned());
    // the user counter is read (which unifies the last query variable: one more run of every
    // pending constraint) only when some goal of the case updates it
    let updates = c.prefix.iter().chain(c.branches.iter().flatten()).chain(c.suffix.iter()).any(|g| g.any(&|x| matches!(x, Goal::UserUpd(_))));
    if updates {
        body.push(Goal::ReadUser(Term::Var(c.nd as VarId)));
    }
    Program { nq: c.nd + 1, body }
}

fn run1(p: &Program) -> Result<Vec<Answer>, Option<crate::guard::PanicInfo>> {
    let o = run::run(p, Mode::Bfs, Limits { max_answers: 3000, budget: 2_000_000 });
    match o.end {
        End::Exhausted => Ok(o.answers),
        End::Panic(pi) => Err(Some(pi)),
        _ => Err(None),
    }
}

pub fn eval(c: &Case, ctx: &Ctx) -> CaseInfo {
    let mut info = CaseInfo::default();
    let whole = prog(c, Goal::Conde(c.branches.clone()));
    let desc = whole.show();
    info.key = hash_str(&desc);
    let mut union: Vec<Answer> = vec![];
    let mut per = vec![];
    for b in &c.branches {
        let p = prog(c, Goal::Conj(b.clone()));
        match run1(&p) {
            Ok(a) => {
                per.push(a.len());
                union.extend(a);
            }
            Err(Some(pi)) => {
                info.fail(format!("C10:panic:{}", pi.key()), format!("{}\n  panicked: {} at {}", p.show(), pi.message, pi.location));
                return info;
            }
            Err(None) => return CaseInfo { skip: Some("incomplete"), ..info },
        }
    }
    let mut shared = 0;
    for b in &c.branches {
        let mut pv = vec![];
        c.prefix.iter().for_each(|g| g.visit_vars(&mut |v| pv.push(v)));
        let mut bv = vec![];
        b.iter().for_each(|g| g.visit_vars(&mut |v| bv.push(v)));
        if bv.iter().any(|v| pv.contains(v)) || b.iter().any(|g| matches!(g, Goal::UserUpd(_))) {
            shared += 1;
        }
    }
    info.nontrivial = per.iter().filter(|n| **n > 0).count() >= 2 && !c.prefix.is_empty() && shared >= 2;
    if c.prefix.iter().any(|g| matches!(g, Goal::Fd(_))) {
        info.class("fd-prefix");
    } else {
        info.class("tree-clpz-prefix");
    }
    if c.branches.iter().any(|b| b.iter().any(|g| matches!(g, Goal::UserUpd(_)))) {
        info.class("user-state-updated-in-a-branch");
    }
    if c.prefix.iter().any(|g| matches!(g, Goal::Fd(FdGoal::Distinct(_)))) {
        info.class("distinctfd-in-prefix");
    }
    if c.branches.len() == 3 {
        info.class("three-branches");
    }
    let u = canon::universe(&[&whole], &[], canon::count_diseqs(&whole) + 2, 9);
    let mut orders: Vec<Vec<Vec<Goal>>> = vec![c.branches.clone()];
    let mut rev = c.branches.clone();
    rev.reverse();
    orders.push(rev);
    for (i, br) in orders.iter().enumerate() {
        let p = prog(c, Goal::Conde(br.clone()));
        let got = match run1(&p) {
            Ok(a) => a,
            Err(Some(pi)) => {
                info.fail(format!("C10:panic:{}", pi.key()), format!("{}\n  panicked: {} at {}", p.show(), pi.message, pi.location));
                return info;
            }
            Err(None) => return CaseInfo { skip: Some("incomplete"), ..info },
        };
        if i == 0 && ctx.want_sample {
            info.sample = Some(json!({ "program": desc, "answers": run::show_answers(&got), "union_of_branches_run_alone": run::show_answers(&union), "answers_per_branch": per }));
        }
        match canon::multiset_cmp(&got, &union, &u) {
            Ok(None) => {}
            Err(()) => return CaseInfo { skip: Some("too-big"), ..info },
            Ok(Some(d)) => {
                info.fail(
                    "C10:disjunction-differs-from-union-of-branches",
                    format!(
                        "{}\n  answers: {}\n  union of the branches run alone after the same prefix: {}\n  only in the disjunction: {}\n  only in the union: {}",
                        p.show(),
                        run::show_answers(&got),
                        run::show_answers(&union),
                        run::show_answers(&d.only_left),
                        run::show_answers(&d.only_right)
                    ),
                );
                return info;
            }
        }
    }
    info
}

fn run_family(bytes: &[u8], ctx: &Ctx) -> CaseInfo {
    let mut s = Source::new(bytes);
    let c = decode(&mut s);
    // a third of the cases each: goals built as the macros expand them, with the constructor
    // functions Disj::from_conjunctions / Conj::from_vec, with nested Disj::new / Conj::new
    let mode = (bytes.iter().map(|b| *b as u32).sum::<u32>() % 3) as u8;
    let mut info = crate::build::with_api_mode(mode, || eval(&c, ctx));
    info.class(match mode {
        0 => "built-as-macros-expand",
        1 => "built-with-from_conjunctions",
        _ => "built-with-Disj::new",
    });
    info
}

/// FD constraints posted BEFORE any domain, variables bound by unification inside the branches,
/// the domains posted after the disjunction (3-4 data variables).
fn decode_late(s: &mut Source) -> Case {
    let nd = 3 + s.below(2);
    let mut g = Gen { s, fd: true, nd };
    let all = Term::list((0..nd).map(|v| Term::Var(v as VarId)).collect());
    let mut prefix = vec![];
    let np = 1 + g.s.below(3);
    for _ in 0..np {
        let goal = match g.s.weighted(&[3, 3, 2, 2, 2, 1, 1]) {
            0 => {
                if g.s.flag(128) {
                    Goal::Fd(FdGoal::Distinct(all.clone()))
                } else {
                    // a sub-list of the variables (at least two)
                    let skip = g.s.below(nd);
                    let skip2 = if nd > 3 && g.s.flag(128) { g.s.below(nd) } else { skip };
                    Goal::Fd(FdGoal::Distinct(Term::list((0..nd).filter(|v| *v != skip && *v != skip2).map(|v| Term::Var(v as VarId)).collect())))
                }
            }
            1 => Goal::Fd(FdGoal::Lte(g.var(), g.var())),
            2 => Goal::Fd(FdGoal::Lt(g.var(), g.var())),
            3 => Goal::Fd(FdGoal::Diseq(g.var(), g.operand())),
            4 => Goal::Fd(FdGoal::Plus(g.var(), g.operand(), g.var())),
            5 => Goal::UserUpd(1 + g.s.below(3) as i64),
            _ => {
                let a = g.s.range(0, 4);
                let b = g.s.range(a, 4);
                Goal::Fd(FdGoal::InFdRange(g.var(), a, b))
            }
        };
        prefix.push(goal);
    }
    let nb = 2 + if g.s.flag(60) { 1 } else { 0 };
    let mut branches = vec![];
    // branches are aimed at one constraint of the prefix: bindings that jointly violate it (only
    // the last binding decides), bindings that satisfy it, bindings of variables it does not
    // mention, or unaimed goals
    let targets: Vec<Goal> = prefix.iter().filter(|g| matches!(g, Goal::Fd(FdGoal::Distinct(_) | FdGoal::Lte(..) | FdGoal::Lt(..) | FdGoal::Diseq(..) | FdGoal::Plus(..)))).cloned().collect();
    for _ in 0..nb {
        let mode = if targets.is_empty() { 3 } else { g.s.weighted(&[3, 2, 3, 2]) };
        if mode == 3 {
            let n = 1 + g.s.below(3);
            let b: Vec<Goal> = (0..n).map(|_| if g.s.flag(200) { Goal::Eq(g.var(), g.int()) } else { g.goal(true) }).collect();
            branches.push(b);
            continue;
        }
        let t = targets[g.s.below(targets.len())].clone();
        let mut tv: Vec<VarId> = vec![];
        t.visit_vars(&mut |v| {
            if !tv.contains(&v) {
                tv.push(v)
            }
        });
        let k = g.s.range(0, 3);
        let b: Vec<Goal> = match mode {
            // violate
            0 => match &t {
                Goal::Fd(FdGoal::Distinct(_)) | Goal::Fd(FdGoal::Diseq(..)) if tv.len() >= 2 => {
                    let i = g.s.below(tv.len());
                    let j = (i + 1 + g.s.below(tv.len() - 1)) % tv.len();
                    vec![Goal::Eq(Term::Var(tv[i]), Term::Int(k)), Goal::Eq(Term::Var(tv[j]), Term::Int(k))]
                }
                Goal::Fd(FdGoal::Lte(Term::Var(x), Term::Var(y))) | Goal::Fd(FdGoal::Lt(Term::Var(x), Term::Var(y))) if x != y => {
                    let (first, second) = (Goal::Eq(Term::Var(*x), Term::Int(k + 1)), Goal::Eq(Term::Var(*y), Term::Int(k)));
                    if g.s.flag(128) { vec![first, second] } else { vec![second, first] }
                }
                _ => tv.iter().map(|v| Goal::Eq(Term::Var(*v), Term::Int(k))).collect(),
            },
            // satisfy (pairwise different ascending values)
            1 => tv.iter().enumerate().map(|(i, v)| Goal::Eq(Term::Var(*v), Term::Int((i as i64).min(4)))).collect(),
            // bindings of variables the constraint does not mention
            _ => {
                let others: Vec<VarId> = (0..nd as VarId).filter(|v| !tv.contains(v)).collect();
                if others.is_empty() {
                    vec![Goal::Eq(g.var(), g.int())]
                } else {
                    let n = 1 + g.s.below(2.max(others.len()));
                    (0..n).map(|i| Goal::Eq(Term::Var(others[i % others.len()]), Term::Int(k))).collect()
                }
            }
        };
        branches.push(b);
    }
    let mut suffix = vec![];
    if g.s.flag(40) {
        // something else between the disjunction and the domains
        suffix.push(g.goal(false));
    }
    if g.s.flag(128) {
        suffix.push(Goal::Fd(FdGoal::InFdRange(all, 0, 4)));
    } else {
        // only the variables that occur in a finite-domain goal need a domain
        let mut used: Vec<VarId> = vec![];
        let mut collect = |gl: &Goal| {
            if let Goal::Fd(_) = gl {
                gl.visit_vars(&mut |v| {
                    if !used.contains(&v) {
                        used.push(v)
                    }
                })
            }
        };
        prefix.iter().for_each(&mut collect);
        branches.iter().flatten().for_each(&mut collect);
        suffix.iter().for_each(&mut collect);
        used.sort();
        if !used.is_empty() {
            suffix.push(Goal::Fd(FdGoal::InFdRange(Term::list(used.into_iter().map(Term::Var).collect()), 0, 4)));
        }
    }
    Case { prefix, branches, suffix, nd }
}

fn run_late(bytes: &[u8], ctx: &Ctx) -> CaseInfo {
    let mut s = Source::new(bytes);
    let c = decode_late(&mut s);
    let mut info = eval(&c, ctx);
    info.class("domains-after-the-disjunction");
    info
}

fn fixed_distinct(ctx: &Ctx) -> CaseInfo {
    // shared distinctfd constraint object updated in one branch
    let c = Case {
        prefix: vec![
            Goal::Fd(FdGoal::InFdRange(Term::list(vec![Term::Var(0), Term::Var(1), Term::Var(2)]), 0, 2)),
            Goal::Fd(FdGoal::Distinct(Term::list(vec![Term::Var(0), Term::Var(1), Term::Var(2)]))),
            Goal::UserUpd(1),
        ],
        branches: vec![vec![Goal::Eq(Term::Var(0), Term::Int(0)), Goal::UserUpd(2)], vec![Goal::Eq(Term::Var(1), Term::Int(0))], vec![Goal::Eq(Term::Var(2), Term::Int(2)), Goal::UserUpd(3)]],
        suffix: vec![],
        nd: 3,
    };
    eval(&c, ctx)
}

pub fn run_family_pub(bytes: &[u8], ctx: &Ctx) -> CaseInfo {
    run_family(bytes, ctx)
}

pub fn def() -> PropertyDef {
    PropertyDef {
        id: "C10",
        rule: "a shared prefix (tree/CLP(Z) profile: ==, != over lists, pending plusz/timesz, user-state updates; FD profile: a domain for all three variables, distinctfd, ltefd/ltfd/plusfd/diseqfd, ==, user-state updates) followed by 2-3 branch goals of 1-3 goals each from the same vocabulary; the user counter is exposed in a fourth query variable by an fngoal at the end. Oracle (metamorphic): multiset(prefix, conde{A,B[,C]}) = multiset(prefix, A) + multiset(prefix, B) [+ …], also with the branches in reverse order. Non-trivial = >=2 branches have answers, the prefix is non-empty and >=2 branches touch a prefix variable or the user state; distinct = hash of the printed program. Family `late-domains`: 3-4 data variables, FD constraints (distinctfd over all or a sub-list, ltefd, ltfd, diseqfd, plusfd) posted before any domain, branches whose bindings are aimed at one prefix constraint (jointly violating it, satisfying it, touching other variables only, or unaimed), the domains posted after the disjunction; the user counter is read only when a goal updates it",
        assumptions: vec!["answers compared up to renaming and constraint equivalence"],
        families: vec![
            Family { name: "prefix-branches", max_len: 120, quick: 120_000, thorough: 3_000_000, run: run_family },
            Family { name: "late-domains", max_len: 96, quick: 80_000, thorough: 2_000_000, run: run_late },
        ],
        fixed: vec![Fixed { name: "shared-distinctfd-and-user-state", run: fixed_distinct }],
        witnesses: vec![],
        exhaustive: None,
        exhaustive_in_quick: false,
        custom: None,
        custom_replay: None,
    }
}
