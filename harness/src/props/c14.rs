//! C14 — surface syntax translates to the documented goals and terms (compile pipeline).
//! C13 — pattern matching; C15 — fresh variables distinct and renaming-invariant: same driver.

use crate::ast::{Goal, Program};
use crate::emit::Names;
use crate::framework::*;
use crate::gen::surface::{gen_c13, gen_c14, gen_c15};
use crate::props::surface::{drive, one_variant, replay_one, SurfaceFamily};

fn nt14(_p: &Program, kinds: &[&'static str]) -> bool {
    let clause_kinds = kinds.iter().filter(|k| ["==", "!=", "conde", "conjunction", "fresh", "closure", "relation-call", "true/false", "for"].contains(k)).count();
    clause_kinds >= 3 && (kinds.contains(&"nested-list") || kinds.contains(&"improper-list") || kinds.contains(&"conjunction-in-operator"))
}

fn fam14() -> SurfaceFamily {
    SurfaceFamily { prop: "C14", name: "clauses", max_len: 200, quick: 1350, thorough: 12_000, decode: gen_c14, variants: one_variant, nontrivial: nt14 }
}

fn custom14(tier: Tier, seed: u64, stats: &mut Stats) -> Result<(), String> {
    drive(&fam14(), tier, seed, stats)
}

fn replay14(_fam: &str, bytes: &[u8], ctx: &Ctx) -> Result<CaseInfo, String> {
    replay_one(&fam14(), bytes, ctx)
}

pub fn def14() -> PropertyDef {
    PropertyDef {
        id: "C14",
        rule: "surface programs over the clause grammar: `|x| {}` (also `|| {}`), ==, !=, `[g, …]` nested directly in operator bodies, empty clauses `[]`, conde / cond, closure { } (as last user of its captures), true / false, calls of library relations and of harness relations written with proto_vulcan_closure!, `for x in &coll { … }`, literals of every kind (large and isize-suffixed integers, bools, chars and strings with escapes and non-ASCII), nested proper / improper lists, `_` (also as improper tail), `{-n}` and `{lterm!(…)}` arguments, Pair/Duo/Triple/tuple constructors (also nested) at argument level; 1-3 query variables with distinguishing markers. Each program is emitted as Rust source, compiled against the current tree and run; oracle: the reference interpreter on the same AST (multiset), the dynamic build of the same AST, results read by field name, Display listing `name: value` in declaration order. Non-trivial = >=3 different clause kinds and a nested/improper list or a conjunction inside an operator; distinct = hash of the emitted program",
        assumptions: vec!["a generated program that does not compile is a generator problem (tolerated up to 2%, else exit 2)", "reference interpreter correct"],
        families: vec![],
        fixed: vec![],
        witnesses: vec![],
        exhaustive: None,
        exhaustive_in_quick: false,
        custom: Some(custom14),
        custom_replay: Some(replay14),
    }
}

fn nt13(p: &Program, kinds: &[&'static str]) -> bool {
    let arms = p.body.iter().map(|g| if let Goal::Match(_, _, a) = g { a.len() } else { 0 }).max().unwrap_or(0);
    arms >= 2 && ["alternatives", "repeated-pattern-variable", "pattern-variable-shadows-outer", "improper-pattern"].iter().any(|k| kinds.contains(k))
}

fn fam13() -> SurfaceFamily {
    SurfaceFamily { prop: "C13", name: "match", max_len: 160, quick: 1350, thorough: 12_000, decode: gen_c13, variants: one_variant, nontrivial: nt13 }
}

fn custom13(tier: Tier, seed: u64, stats: &mut Stats) -> Result<(), String> {
    drive(&fam13(), tier, seed, stats)
}

fn replay13(_fam: &str, bytes: &[u8], ctx: &Ctx) -> Result<CaseInfo, String> {
    replay_one(&fam13(), bytes, ctx)
}

pub fn def13() -> PropertyDef {
    PropertyDef {
        id: "C13",
        rule: "match / matche / matcha / matchu on a query variable or a list of two, 1-4 arms, patterns: literals, [], `_`, proper and improper list patterns (depth <= 2), compound patterns Pair(..), Triple(..), Rec { a: .., b: .. }, names repeated inside one pattern, `p1 | p2` alternatives sharing a body, empty bodies (`=> ,`), bodies over pattern variables and outer variables, pattern variables named like an outer variable (shadowing, also of the matched term itself). Emitted, compiled and run; oracle: reference evaluation of the documented expansion (disjunction over arms and alternatives of `t == p, body` with fresh pattern variables; soft-cut / committed choice for matcha / matchu), the dynamic build, Display order. Non-trivial = >=2 arms and an alternative, repeated name, shadowing name or improper pattern; distinct = hash of the emitted program",
        assumptions: vec!["a generated program that does not compile is a generator problem (tolerated up to 2%, else exit 2)", "reference interpreter correct"],
        families: vec![],
        fixed: vec![],
        witnesses: vec![],
        exhaustive: None,
        exhaustive_in_quick: false,
        custom: Some(custom13),
        custom_replay: Some(replay13),
    }
}

fn nt15(_p: &Program, kinds: &[&'static str]) -> bool {
    kinds.contains(&"name-shadows-outer-binding") || kinds.contains(&"recursive-relation-with-fresh-variables") || kinds.contains(&"same-pattern-names-across-arms")
}

fn variants15(n: &Names) -> Vec<Names> {
    // as written (shadowing names) and alpha-renamed to globally unique names
    let unique = Names { names: Default::default(), ..n.clone() };
    vec![n.clone(), unique]
}

fn fam15() -> SurfaceFamily {
    SurfaceFamily { prop: "C15", name: "scopes", max_len: 200, quick: 450, thorough: 6_000, decode: gen_c15, variants: variants15, nontrivial: nt15 }
}

fn custom15(tier: Tier, seed: u64, stats: &mut Stats) -> Result<(), String> {
    drive(&fam15(), tier, seed, stats)
}

fn replay15(_fam: &str, bytes: &[u8], ctx: &Ctx) -> Result<CaseInfo, String> {
    replay_one(&fam15(), bytes, ctx)
}

/// A long history of variable creation on one thread: recursive relations that introduce fresh
/// variables per unfolding, unfolded hundreds of times, in query after query. Expected answers
/// are known in closed form (no interpreter needed).
fn run_history(bytes: &[u8], ctx: &Ctx) -> CaseInfo {
    use crate::ast::{Rel, Term};
    use crate::run::{self, Limits, Mode};
    use crate::source::{hash_str, Source};
    let mut s = Source::new(bytes);
    let k = 10 + s.below(90);
    let which = s.below(2);
    let nat = |n: usize| Term::list(vec![Term::Int(1); n]);
    let mut info = CaseInfo::default();
    let (p, desc) = if which == 0 {
        (Program { nq: 1, body: vec![Goal::Call(Rel::LenLe, vec![Term::Var(0), nat(k)])] }, format!("lenle(q, <unary {}>)", k))
    } else {
        (Program { nq: 1, body: vec![Goal::Call(Rel::Downfrom, vec![nat(k), Term::Var(0)])] }, format!("downfrom(<unary {}>, q)", k))
    };
    info.key = hash_str(&desc);
    info.nontrivial = true;
    info.class(if which == 0 { "history:lenle" } else { "history:downfrom" });
    let out = run::run(&p, Mode::Bfs, Limits { max_answers: 1000, budget: 5_000_000 });
    if ctx.want_sample {
        info.sample = Some(serde_json::json!({ "program": desc, "answers": out.answers.len(), "end": format!("{:?}", out.end) }));
    }
    if let run::End::Panic(pi) = &out.end {
        info.fail(format!("C15:panic:{}", pi.key()), format!("{}\n  panicked: {} at {}", desc, pi.message, pi.location));
        return info;
    }
    if !out.complete() {
        return CaseInfo { skip: Some("incomplete"), ..info };
    }
    if which == 0 {
        // answers: for every i in 0..=k the list of i pairwise distinct reified variables
        let mut lens: Vec<usize> = vec![];
        for a in &out.answers {
            match a.terms[0].as_proper_list() {
                Some(items) => {
                    let mut vs = vec![];
                    a.terms[0].vars(&mut vs);
                    if vs.len() != items.len() || !items.iter().all(|t| t.is_var()) {
                        info.fail("C15:fresh-variables-of-unfoldings-not-distinct", format!("{}\n  answer with {} elements has only {} distinct variables: {}", desc, items.len(), vs.len(), run::show_answer(a).chars().take(300).collect::<String>()));
                        return info;
                    }
                    lens.push(items.len());
                }
                None => {
                    info.fail("C15:history-wrong-answer", format!("{}\n  answer is not a proper list: {}", desc, run::show_answer(a).chars().take(300).collect::<String>()));
                    return info;
                }
            }
        }
        lens.sort();
        if lens != (0..=k).collect::<Vec<_>>() {
            info.fail("C15:history-wrong-answer", format!("{}\n  expected one answer of every length 0..={}, got lengths {:?}", desc, k, lens.iter().take(40).collect::<Vec<_>>()));
        }
    } else {
        let want = Term::list((0..k).map(|i| nat(k - i)).collect());
        if out.answers.len() != 1 || out.answers[0].terms[0] != want {
            info.fail("C15:history-wrong-answer", format!("{}\n  expected exactly the list of the {} suffixes, got {} answer(s): {}", desc, k, out.answers.len(), out.answers.first().map(|a| run::show_answer(a).chars().take(200).collect::<String>()).unwrap_or_default()));
        }
    }
    info
}

pub fn def15() -> PropertyDef {
    PropertyDef {
        id: "C15",
        rule: "programs in which the names x, y and q0 are bound again and again: nested and sibling fresh scopes, conde clauses, closure bodies, match arms that use the same pattern variable names h/t in every arm, and calls of recursive relations whose bodies create a fresh variable per unfolding (lenle, downfrom, append). Each program is emitted twice - with the shadowing names and alpha-renamed to globally unique names - compiled and run; oracle: both emissions give the same answer multiset, equal to the reference interpreter (which resolves variable ids, not names) and to the dynamic build. Non-trivial = a name shadows an outer binding, or a recursive relation with fresh variables is unfolded, or arms share pattern names; distinct = hash of the emitted program. A second, in-process family (variable-history) runs recursive relations that create fresh variables per unfolding 10-100 levels deep, query after query on the same thread, and checks the closed-form answers (lenle: one list of i pairwise distinct variables for every i; downfrom: the list of suffixes), so that variable identity is also exercised over long creation histories",
        assumptions: vec!["a generated program that does not compile is a generator problem (tolerated up to 2%, else exit 2)", "reference interpreter correct"],
        families: vec![Family { name: "variable-history", max_len: 8, quick: 6_000, thorough: 100_000, run: run_history }],
        fixed: vec![],
        witnesses: vec![],
        exhaustive: None,
        exhaustive_in_quick: false,
        custom: Some(custom15),
        custom_replay: Some(replay15),
    }
}
