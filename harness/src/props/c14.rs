//! C14 — surface syntax translates to the documented goals and terms (compile pipeline).
//! C13 — pattern matching; C15 — fresh variables distinct and renaming-invariant: same driver.

use crate::ast::{Goal, Program};
use crate::emit::Names;
use crate::framework::*;
use crate::gen::surface::{gen_c13, gen_c14, gen_c15};
use crate::props::surface::{drive, one_variant, replay_one, SurfaceFamily};

fn nt14(_p: &Program, kinds: &[&'static str]) -> bool {
    let clause_kinds = kinds.iter().filter(|k| ["==", "!=", "conde", "conjunction", "fresh", "closure", "relation-call", "true/false", "for"].contains(k)).count();
    clause_kinds >= 3 && (kinds.contains(&"nested-list") || kinds.contains(&"improper-list") || kinds.contains(&"conjunction-in-operator"))
}

fn fam14() -> SurfaceFamily {
    SurfaceFamily { prop: "C14", name: "clauses", max_len: 200, quick: 700, thorough: 12_000, decode: gen_c14, variants: one_variant, nontrivial: nt14 }
}

fn custom14(tier: Tier, seed: u64, stats: &mut Stats) -> Result<(), String> {
    drive(&fam14(), tier, seed, stats)
}

fn replay14(_fam: &str, bytes: &[u8], ctx: &Ctx) -> Result<CaseInfo, String> {
    replay_one(&fam14(), bytes, ctx)
}

pub fn def14() -> PropertyDef {
    PropertyDef {
        id: "C14",
        rule: "surface programs over the clause grammar: `|x| {}` (also `|| {}`), ==, !=, `[g, …]` nested directly in operator bodies, empty clauses `[]`, conde / cond, closure { } (as last user of its captures), true / false, calls of library relations and of harness relations written with proto_vulcan_closure!, `for x in &coll { … }`, literals of every kind (large and isize-suffixed integers, bools, chars and strings with escapes and non-ASCII), nested proper / improper lists, `_` (also as improper tail), `{-n}` and `{lterm!(…)}` arguments, Pair/Duo/Triple/tuple constructors (also nested) at argument level; 1-3 query variables with distinguishing markers. Each program is emitted as Rust source, compiled against the current tree and run; oracle: the reference interpreter on the same AST (multiset), the dynamic build of the same AST, results read by field name, Display listing `name: value` in declaration order. Non-trivial = >=3 different clause kinds and a nested/improper list or a conjunction inside an operator; distinct = hash of the emitted program",
        assumptions: vec!["a generated program that does not compile is a generator problem (tolerated up to 2%, else exit 2)", "reference interpreter correct"],
        families: vec![],
        fixed: vec![],
        witnesses: vec![],
        exhaustive: None,
        exhaustive_in_quick: false,
        custom: Some(custom14),
        custom_replay: Some(replay14),
    }
}

fn nt13(p: &Program, kinds: &[&'static str]) -> bool {
    let arms = p.body.iter().map(|g| if let Goal::Match(_, _, a) = g { a.len() } else { 0 }).max().unwrap_or(0);
    arms >= 2 && ["alternatives", "repeated-pattern-variable", "pattern-variable-shadows-outer", "improper-pattern"].iter().any(|k| kinds.contains(k))
}

fn fam13() -> SurfaceFamily {
    SurfaceFamily { prop: "C13", name: "match", max_len: 160, quick: 700, thorough: 12_000, decode: gen_c13, variants: one_variant, nontrivial: nt13 }
}

fn custom13(tier: Tier, seed: u64, stats: &mut Stats) -> Result<(), String> {
    drive(&fam13(), tier, seed, stats)
}

fn replay13(_fam: &str, bytes: &[u8], ctx: &Ctx) -> Result<CaseInfo, String> {
    replay_one(&fam13(), bytes, ctx)
}

pub fn def13() -> PropertyDef {
    PropertyDef {
        id: "C13",
        rule: "match / matche / matcha / matchu on a query variable or a list of two, 1-4 arms, patterns: literals, [], `_`, proper and improper list patterns (depth <= 2), compound patterns Pair(..), Triple(..), Rec { a: .., b: .. }, names repeated inside one pattern, `p1 | p2` alternatives sharing a body, empty bodies (`=> ,`), bodies over pattern variables and outer variables, pattern variables named like an outer variable (shadowing, also of the matched term itself). Emitted, compiled and run; oracle: reference evaluation of the documented expansion (disjunction over arms and alternatives of `t == p, body` with fresh pattern variables; soft-cut / committed choice for matcha / matchu), the dynamic build, Display order. Non-trivial = >=2 arms and an alternative, repeated name, shadowing name or improper pattern; distinct = hash of the emitted program",
        assumptions: vec!["a generated program that does not compile is a generator problem (tolerated up to 2%, else exit 2)", "reference interpreter correct"],
        families: vec![],
        fixed: vec![],
        witnesses: vec![],
        exhaustive: None,
        exhaustive_in_quick: false,
        custom: Some(custom13),
        custom_replay: Some(replay13),
    }
}

fn nt15(_p: &Program, kinds: &[&'static str]) -> bool {
    kinds.contains(&"name-shadows-outer-binding") || kinds.contains(&"recursive-relation-with-fresh-variables") || kinds.contains(&"same-pattern-names-across-arms")
}

fn variants15(n: &Names) -> Vec<Names> {
    // as written (shadowing names) and alpha-renamed to globally unique names
    let unique = Names { names: Default::default(), ..n.clone() };
    vec![n.clone(), unique]
}

fn fam15() -> SurfaceFamily {
    SurfaceFamily { prop: "C15", name: "scopes", max_len: 200, quick: 350, thorough: 6_000, decode: gen_c15, variants: variants15, nontrivial: nt15 }
}

fn custom15(tier: Tier, seed: u64, stats: &mut Stats) -> Result<(), String> {
    drive(&fam15(), tier, seed, stats)
}

fn replay15(_fam: &str, bytes: &[u8], ctx: &Ctx) -> Result<CaseInfo, String> {
    replay_one(&fam15(), bytes, ctx)
}

pub fn def15() -> PropertyDef {
    PropertyDef {
        id: "C15",
        rule: "programs in which the names x, y and q0 are bound again and again: nested and sibling fresh scopes, conde clauses, closure bodies, match arms that use the same pattern variable names h/t in every arm, and calls of recursive relations whose bodies create a fresh variable per unfolding (lenle, downfrom, append). Each program is emitted twice - with the shadowing names and alpha-renamed to globally unique names - compiled and run; oracle: both emissions give the same answer multiset, equal to the reference interpreter (which resolves variable ids, not names) and to the dynamic build. Non-trivial = a name shadows an outer binding, or a recursive relation with fresh variables is unfolded, or arms share pattern names; distinct = hash of the emitted program",
        assumptions: vec!["a generated program that does not compile is a generator problem (tolerated up to 2%, else exit 2)", "reference interpreter correct"],
        families: vec![],
        fixed: vec![],
        witnesses: vec![],
        exhaustive: None,
        exhaustive_in_quick: false,
        custom: Some(custom15),
        custom_replay: Some(replay15),
    }
}
