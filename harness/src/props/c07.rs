//! C07 — interleaving disjunction is fair and productive (bounded liveness in engine steps).

use crate::ast::{Goal, Program, Term, VarId};
use crate::framework::*;
use crate::gen::search::{gen_branch, BranchKind};
use crate::run::{self, Answer, End, Limits, Mode};
use crate::source::{hash_str, Source};
use serde_json::json;

const S_MAX: u64 = 2_000;
const M: usize = 3;

#[derive(Clone, Debug)]
pub struct Case {
    pub branches: Vec<(Vec<Goal>, BranchKind)>,
    pub placement: usize,
    pub form: usize,
    pub next_var: VarId,
}

fn place(case: &Case, clauses: Vec<Vec<Goal>>) -> Program {
    // q0 is the observed variable; q1 is used by the deterministic prefix
    let disj = match case.form {
        1 if clauses.len() >= 1 => {
            // anyo form: loop { conde {...} } produces the disjunction's answers again and again
            Goal::Anyo(vec![Goal::Conde(clauses)])
        }
        _ => Goal::Conde(clauses),
    };
    let body = match case.placement {
        0 => vec![disj],
        1 => vec![Goal::Eq(Term::Var(1), Term::Int(5)), Goal::Diseq(Term::Var(0), Term::Int(77)), disj],
        2 => vec![Goal::Fresh(vec![case.next_var], vec![Goal::Eq(Term::Var(case.next_var), Term::Int(1)), disj])],
        3 => vec![Goal::Conde(vec![vec![disj], vec![Goal::Eq(Term::Var(0), Term::Int(99))]])],
        _ => vec![Goal::Conde(vec![vec![Goal::Never], vec![Goal::Eq(Term::Var(1), Term::Int(3)), disj]])],
    };
    Program { nq: 2, body }
}

fn decode(s: &mut Source) -> Case {
    let k = 2 + s.below(3);
    let mut next_var: VarId = 2;
    let mut branches = vec![];
    for i in 0..k {
        let (mut g, kind) = gen_branch(s, 0, 10 * (i as i64 + 1), &mut next_var);
        if s.flag(40) {
            // conjunction with a harmless prefix
            g.insert(0, Goal::Eq(Term::Int(1), Term::Int(1)));
        }
        branches.push((g, kind));
    }
    let placement = s.below(5);
    let form = if s.flag(50) { 1 } else { 0 };
    Case { branches, placement, form, next_var }
}

fn contains_all(have: &[Answer], want: &[Answer]) -> bool {
    let mut pool: Vec<Option<&Answer>> = have.iter().map(Some).collect();
    for w in want {
        match pool.iter_mut().find(|x| x.map(|a| a.terms[0] == w.terms[0] && a.cons.len() == w.cons.len()).unwrap_or(false)) {
            Some(slot) => *slot = None,
            None => return false,
        }
    }
    true
}

pub fn eval(case: &Case, ctx: &Ctx) -> CaseInfo {
    let mut info = CaseInfo::default();
    let whole = place(case, case.branches.iter().map(|(g, _)| g.clone()).collect());
    let desc = whole.show();
    info.key = hash_str(&desc);
    // obligations: what each branch produces alone (same placement), with its cost
    let mut obligations: Vec<Answer> = vec![];
    let mut max_cost = 0u64;
    let mut per_branch = vec![];
    for (g, _) in &case.branches {
        let alone = place(&Case { form: 0, ..case.clone() }, vec![g.clone()]);
        let out = run::run(&alone, Mode::Bfs, Limits::first(M, S_MAX));
        if let End::Panic(pi) = &out.end {
            info.fail(format!("C07:panic:{}", pi.key()), format!("{}\n  panicked: {} at {}", alone.show(), pi.message, pi.location));
            return info;
        }
        for (a, m) in out.answers.iter().zip(out.meta.iter()) {
            // the outer `q0 == 99` alternative of placement 3 is not an obligation of the branch
            if case.placement == 3 && a.terms[0] == Term::Int(99) {
                continue;
            }
            obligations.push(a.clone());
            max_cost = max_cost.max(m.steps);
        }
        per_branch.push(out.answers.len());
    }
    // non-trivial: an infinite or diverging branch precedes a branch with obligations
    let mut seen_inf = false;
    for ((_, kind), n) in case.branches.iter().zip(per_branch.iter()) {
        if seen_inf && *n > 0 {
            info.nontrivial = true;
        }
        if *kind != BranchKind::Finite {
            seen_inf = true;
        }
    }
    if case.branches.iter().any(|(_, k)| *k == BranchKind::Diverger) {
        info.class("silent-diverger");
    }
    if case.branches.iter().filter(|(_, k)| *k == BranchKind::Producer).count() >= 2 {
        info.class("two-infinite-producers");
    }
    info.class(match case.placement {
        0 => "top-level",
        1 => "after-prefix",
        2 => "under-fresh",
        3 => "inside-outer-conde",
        _ => "behind-never-in-outer-conde",
    });
    if case.form == 1 {
        info.class("loop-body");
    }
    if obligations.is_empty() {
        return CaseInfo { skip: Some("no-obligations"), ..info };
    }
    let bound = 256 * max_cost + 10_000;
    let mut found = false;
    let mut last = None;
    for factor in [1u64, 10] {
        let mut got: Vec<Answer> = vec![];
        let obl = obligations.clone();
        let out = run::run_until(&whole, Mode::Bfs, Limits { max_answers: 20_000, budget: bound * factor }, &mut |a, _| {
            got.push(a.clone());
            // cheap test first: only re-check when the new answer is one of the wanted terms
            obl.iter().any(|w| w.terms[0] == a.terms[0]) && contains_all(&got, &obl)
        });
        if let End::Panic(pi) = &out.end {
            info.fail(format!("C07:panic:{}", pi.key()), format!("{}\n  panicked: {} at {}", desc, pi.message, pi.location));
            return info;
        }
        if contains_all(&out.answers, &obligations) {
            found = true;
            if factor == 10 {
                info.class("needed-confirm-run");
            }
            last = Some(out);
            break;
        }
        last = Some(out);
    }
    let out = last.unwrap();
    if ctx.want_sample {
        info.sample = Some(json!({ "program": desc, "obligations(first answers of each branch alone)": run::show_answers(&obligations), "max_cost_alone_steps": max_cost, "bound_steps": bound,
            "answers_seen": out.answers.len(), "steps_used": out.meta.last().map(|m| m.steps) }));
    }
    if !found {
        let missing: Vec<Answer> = obligations.iter().filter(|w| !out.answers.iter().any(|a| a.terms[0] == w.terms[0])).cloned().collect();
        info.fail(
            "C07:branch-starved",
            format!(
                "{}\n  answers each branch produces on its own within {} steps: {}\n  not produced by the whole disjunction within {} steps (10x the bound {}): {}\n  answers seen: {} (end {:?})",
                desc,
                S_MAX,
                run::show_answers(&obligations),
                bound * 10,
                bound,
                run::show_answers(&missing),
                out.answers.len(),
                out.end
            ),
        );
    }
    info
}

fn run_family(bytes: &[u8], ctx: &Ctx) -> CaseInfo {
    let mut s = Source::new(bytes);
    let c = decode(&mut s);
    eval(&c, ctx)
}

fn fixed_never_first(ctx: &Ctx) -> CaseInfo {
    // conde { never(), q == 1 }
    let c = Case { branches: vec![(vec![Goal::Never], BranchKind::Diverger), (vec![Goal::Eq(Term::Var(0), Term::Int(1))], BranchKind::Finite)], placement: 0, form: 0, next_var: 2 };
    eval(&c, ctx)
}

fn fixed_two_always(ctx: &Ctx) -> CaseInfo {
    // conde { [always(), q == 1], [always(), q == 2] }
    let c = Case {
        branches: vec![
            (vec![Goal::Always, Goal::Eq(Term::Var(0), Term::Int(1))], BranchKind::Producer),
            (vec![Goal::Always, Goal::Eq(Term::Var(0), Term::Int(2))], BranchKind::Producer),
        ],
        placement: 0,
        form: 0,
        next_var: 2,
    };
    eval(&c, ctx)
}

pub fn def() -> PropertyDef {
    PropertyDef {
        id: "C07",
        rule: "a disjunction of 2-4 branches (finite goals with distinct markers, infinite producers loop{q==c} / [always(), q==c] / nat-based, silent divergers never() / loop{false} / a self-calling closure / `q==c, never()`), placed at top level, after a deterministic prefix, under fresh, inside an outer conde branch, or behind never() in an outer conde, as conde or as the body of loop{}. Oracle (bounded liveness, engine steps from the hook): each branch alone under 2000 steps yields its first <=3 answers (obligations, cost s_i); the whole disjunction must yield all obligations within 256*max(s_i)+10000 steps, re-run with 10x before reporting. Non-trivial = an infinite or diverging branch precedes a branch that has obligations; distinct = hash of the printed program",
        assumptions: vec!["bounded liveness only: a fair scheduler more than ~2500x slower than the bound would be misreported; needs the step-counter hook"],
        families: vec![Family { name: "disjunctions", max_len: 64, quick: 60_000, thorough: 1_200_000, run: run_family }],
        fixed: vec![Fixed { name: "never-before-finite", run: fixed_never_first }, Fixed { name: "two-always-producers", run: fixed_two_always }],
        witnesses: vec![],
        exhaustive: None,
        exhaustive_in_quick: false,
        custom: None,
        custom_replay: None,
    }
}
