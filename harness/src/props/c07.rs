//! C07 — interleaving disjunction is fair and productive (bounded liveness in engine steps).

use crate::ast::{Goal, Program, Term, VarId};
use crate::framework::*;
use crate::gen::search::{gen_branch, BranchKind};
use crate::run::{self, Answer, End, Limits, Mode};
use crate::source::{hash_str, Source};
use serde_json::json;

const S_MAX: u64 = 2_000;
const M: usize = 3;

#[derive(Clone, Debug)]
pub struct Case {
    pub branches: Vec<(Vec<Goal>, BranchKind)>,
    pub placement: usize,
    pub form: usize,
    pub next_var: VarId,
}

fn place(case: &Case, clauses: Vec<Vec<Goal>>) -> Program {
    // q0 is the observed variable; q1 is used by the deterministic prefix
    let disj = match case.form {
        1 if clauses.len() >= 1 => {
            // anyo form: loop { conde {...} } produces the disjunction's answers again and again
            Goal::Anyo(vec![Goal::Conde(clauses)])
        }
        _ => Goal::Conde(clauses),
    };
    let body = match case.placement {
        0 => vec![disj],
        1 => vec![Goal::Eq(Term::Var(1), Term::Int(5)), Goal::Diseq(Term::Var(0), Term::Int(77)), disj],
        2 => vec![Goal::Fresh(vec![case.next_var], vec![Goal::Eq(Term::Var(case.next_var), Term::Int(1)), disj])],
        3 => vec![Goal::Conde(vec![vec![disj], vec![Goal::Eq(Term::Var(0), Term::Int(99))]])],
        _ => vec![Goal::Conde(vec![vec![Goal::Never], vec![Goal::Eq(Term::Var(1), Term::Int(3)), disj]])],
    };
    Program { nq: 2, body }
}

fn decode(s: &mut Source) -> Case {
    let k = 2 + s.below(3);
    let mut next_var: VarId = 2;
    let mut branches = vec![];
    for i in 0..k {
        let (mut g, kind) = gen_branch(s, 0, 10 * (i as i64 + 1), &mut next_var);
        if s.flag(40) {
            // conjunction with a harmless prefix
            g.insert(0, Goal::Eq(Term::Int(1), Term::Int(1)));
        }
        branches.push((g, kind));
    }
    let placement = s.below(5);
    let form = if s.flag(50) { 1 } else { 0 };
    Case { branches, placement, form, next_var }
}

fn contains_all(have: &[Answer], want: &[Answer]) -> bool {
    let mut pool: Vec<Option<&Answer>> = have.iter().map(Some).collect();
    for w in want {
        match pool.iter_mut().find(|x| x.map(|a| a.terms[0] == w.terms[0] && a.cons.len() == w.cons.len()).unwrap_or(false)) {
            Some(slot) => *slot = None,
            None => return false,
        }
    }
    true
}

pub fn eval(case: &Case, ctx: &Ctx) -> CaseInfo {
    eval_with(case, ctx, M, S_MAX, 256)
}

/// `m` = obligations per branch, `s_max` = step budget of a branch run alone
pub fn eval_with(case: &Case, ctx: &Ctx, m_obl: usize, s_max: u64, slack: u64) -> CaseInfo {
    let mut info = CaseInfo::default();
    let whole = place(case, case.branches.iter().map(|(g, _)| g.clone()).collect());
    let desc = whole.show();
    info.key = hash_str(&desc);
    // obligations: what each branch produces alone (same placement), with its cost
    let mut obligations: Vec<Answer> = vec![];
    let mut max_cost = 0u64;
    let mut per_branch = vec![];
    for (g, _) in &case.branches {
        let alone = place(&Case { form: 0, ..case.clone() }, vec![g.clone()]);
        let out = run::run(&alone, Mode::Bfs, Limits::first(m_obl, s_max));
        if let End::Panic(pi) = &out.end {
            info.fail(format!("C07:panic:{}", pi.key()), format!("{}\n  panicked: {} at {}", alone.show(), pi.message, pi.location));
            return info;
        }
        for (a, m) in out.answers.iter().zip(out.meta.iter()) {
            // the outer `q0 == 99` alternative of placement 3 is not an obligation of the branch
            if case.placement == 3 && a.terms[0] == Term::Int(99) {
                continue;
            }
            obligations.push(a.clone());
            max_cost = max_cost.max(m.steps);
        }
        per_branch.push(out.answers.len());
    }
    // non-trivial: an infinite or diverging branch precedes a branch with obligations
    let mut seen_inf = false;
    for ((_, kind), n) in case.branches.iter().zip(per_branch.iter()) {
        if seen_inf && *n > 0 {
            info.nontrivial = true;
        }
        if *kind != BranchKind::Finite {
            seen_inf = true;
        }
    }
    if case.branches.iter().any(|(_, k)| *k == BranchKind::Diverger) {
        info.class("silent-diverger");
    }
    if case.branches.iter().filter(|(_, k)| *k == BranchKind::Producer).count() >= 2 {
        info.class("two-infinite-producers");
    }
    info.class(match case.placement {
        0 => "top-level",
        1 => "after-prefix",
        2 => "under-fresh",
        3 => "inside-outer-conde",
        _ => "behind-never-in-outer-conde",
    });
    if case.form == 1 {
        info.class("loop-body");
    }
    if obligations.is_empty() {
        return CaseInfo { skip: Some("no-obligations"), ..info };
    }
    let bound = slack * max_cost + 10_000;
    let mut found = false;
    let mut last = None;
    for factor in [1u64, 10] {
        // incremental multiset bookkeeping: how many copies of each wanted answer are still missing
        let mut missing: std::collections::HashMap<(Term, usize), usize> = std::collections::HashMap::new();
        for w in &obligations {
            *missing.entry((w.terms[0].clone(), w.cons.len())).or_insert(0) += 1;
        }
        let mut open = obligations.len();
        let out = run::run_until(&whole, Mode::Bfs, Limits { max_answers: 20_000, budget: bound * factor }, &mut |a, _| {
            if let Some(n) = missing.get_mut(&(a.terms[0].clone(), a.cons.len())) {
                if *n > 0 {
                    *n -= 1;
                    open -= 1;
                }
            }
            open == 0
        });
        if let End::Panic(pi) = &out.end {
            info.fail(format!("C07:panic:{}", pi.key()), format!("{}\n  panicked: {} at {}", desc, pi.message, pi.location));
            return info;
        }
        if contains_all(&out.answers, &obligations) {
            found = true;
            if factor == 10 {
                info.class("needed-confirm-run");
            }
            last = Some(out);
            break;
        }
        last = Some(out);
    }
    let out = last.unwrap();
    if ctx.want_sample {
        info.sample = Some(json!({ "program": desc, "obligations(first answers of each branch alone)": run::show_answers(&obligations), "max_cost_alone_steps": max_cost, "bound_steps": bound,
            "answers_seen": out.answers.len(), "steps_used": out.meta.last().map(|m| m.steps) }));
    }
    if !found {
        let missing: Vec<Answer> = obligations.iter().filter(|w| !out.answers.iter().any(|a| a.terms[0] == w.terms[0])).cloned().collect();
        info.fail(
            "C07:branch-starved",
            format!(
                "{}\n  answers each branch produces on its own within {} steps: {}\n  not produced by the whole disjunction within {} steps (10x the bound {}): {}\n  answers seen: {} (end {:?})",
                desc,
                s_max,
                run::show_answers(&obligations),
                bound * 10,
                bound,
                run::show_answers(&missing),
                out.answers.len(),
                out.end
            ),
        );
    }
    info
}

fn run_family(bytes: &[u8], ctx: &Ctx) -> CaseInfo {
    let mut s = Source::new(bytes);
    let c = decode(&mut s);
    if std::env::var("PVH_SHOW").is_ok() {
        eprintln!("SHOW {}", place(&c, c.branches.iter().map(|(g, _)| g.clone()).collect()).show());
    }
    // a third of the cases each in one of the builder's construction modes (what the macros
    // expand to; Disj::from_conjunctions / Conj::from_vec; pairwise Disj::new / Conj::new)
    let mode = (bytes.iter().map(|b| *b as u32).sum::<u32>() % 3) as u8;
    let mut info = crate::build::with_api_mode(mode, || eval(&c, ctx));
    if mode != 0 {
        info.class("built-with-constructor-functions");
    }
    info
}

/// Scale: disjunctions of up to 200 branches with a few producers / divergers among them, and
/// divergers buried under hundreds of pending conjunctions next to a branch with many obligations.
fn run_scale(bytes: &[u8], ctx: &Ctx) -> CaseInfo {
    use crate::ast::Rel;
    use crate::gen::scale;
    let mut s = Source::new(bytes);
    let thorough = ctx.tier == Tier::Thorough;
    let mut next_var: VarId = 2;
    let placement = s.below(5);
    let form = if s.flag(30) { 1 } else { 0 };
    let q = Term::Var(0);
    let (branches, m_obl): (Vec<(Vec<Goal>, BranchKind)>, usize) = if s.flag(128) {
        // wide
        let k = scale::size(&mut s, if thorough { 600 } else { 200 }).max(2);
        let mut br: Vec<(Vec<Goal>, BranchKind)> = (0..k).map(|i| (vec![Goal::Eq(q.clone(), Term::Int(1000 + i as i64))], BranchKind::Finite)).collect();
        let nspecial = 1 + s.below(3);
        for j in 0..nspecial {
            let pos = match s.weighted(&[2, 2, 3]) {
                0 => 0,
                1 => 1.min(k - 1),
                _ => s.below(k),
            };
            let (g, kind) = gen_branch(&mut s, 0, 10 * (j as i64 + 1), &mut next_var);
            // the nat-based producer yields ever longer answers; when a scheduler under test is
            // unfair the run then spends its time reifying them instead of taking steps
            let grows = g.iter().any(|x| x.any(&|y| matches!(y, Goal::Call(Rel::Nat, _))));
            br[pos] = if grows { (vec![Goal::Anyo(vec![Goal::Eq(q.clone(), Term::Int(10 * (j as i64 + 1)))])], BranchKind::Producer) } else { (g, kind) };
        }
        (br, 2)
    } else {
        // deep: a silent diverger below n pending conjunctions, with productive siblings
        let n = scale::size(&mut s, scale::cap(thorough));
        let deep = (vec![Goal::Call(Rel::DeepNever, vec![Term::list(vec![Term::Int(0); n])])], BranchKind::Diverger);
        let sibling = match s.weighted(&[3, 2, 2]) {
            0 => (vec![Goal::Always, Goal::Eq(q.clone(), Term::Int(1))], BranchKind::Producer),
            1 => (vec![Goal::Call(Rel::Member, vec![q.clone(), Term::ints(&(0..60).collect::<Vec<i64>>())])], BranchKind::Finite),
            _ => (vec![Goal::Call(Rel::Nat, vec![q.clone()])], BranchKind::Producer),
        };
        let mut br = vec![deep, sibling];
        if s.flag(100) {
            br.push(gen_branch(&mut s, 0, 30, &mut next_var));
        }
        if s.flag(128) {
            br.swap(0, 1);
        }
        (br, 40)
    };
    let case = Case { branches, placement, form, next_var };
    if std::env::var("PVH_SHOW").is_ok() {
        let d = place(&case, case.branches.iter().map(|(g, _)| g.clone()).collect()).show();
        eprintln!("SHOW {}", d);
    }
    let mut info = eval_with(&case, ctx, m_obl, 6_000, 64);
    truncate_sample(&mut info, 400);
    info.class(if m_obl == 2 { "scale:wide" } else { "scale:deep-diverger" });
    info
}

fn fixed_never_first(ctx: &Ctx) -> CaseInfo {
    // conde { never(), q == 1 }
    let c = Case { branches: vec![(vec![Goal::Never], BranchKind::Diverger), (vec![Goal::Eq(Term::Var(0), Term::Int(1))], BranchKind::Finite)], placement: 0, form: 0, next_var: 2 };
    eval(&c, ctx)
}

fn fixed_two_always(ctx: &Ctx) -> CaseInfo {
    // conde { [always(), q == 1], [always(), q == 2] }
    let c = Case {
        branches: vec![
            (vec![Goal::Always, Goal::Eq(Term::Var(0), Term::Int(1))], BranchKind::Producer),
            (vec![Goal::Always, Goal::Eq(Term::Var(0), Term::Int(2))], BranchKind::Producer),
        ],
        placement: 0,
        form: 0,
        next_var: 2,
    };
    eval(&c, ctx)
}

pub fn def() -> PropertyDef {
    PropertyDef {
        id: "C07",
        rule: "a disjunction of 2-4 branches (finite goals with distinct markers, infinite producers loop{q==c} / [always(), q==c] / nat-based, silent divergers never() / loop{false} / a self-calling closure / `q==c, never()`), placed at top level, after a deterministic prefix, under fresh, inside an outer conde branch, or behind never() in an outer conde, as conde or as the body of loop{}. Oracle (bounded liveness, engine steps from the hook): each branch alone under 2000 steps yields its first <=3 answers (obligations, cost s_i); the whole disjunction must yield all obligations within 256*max(s_i)+10000 steps, re-run with 10x before reporting. Non-trivial = an infinite or diverging branch precedes a branch that has obligations; distinct = hash of the printed program. Family `scale`: the same oracle for disjunctions of up to 200 (thorough 600) branches with 1-3 producers / divergers among finite ones (2 obligations per branch), and for a silent diverger buried below up to 400 (thorough 1000) pending conjunctions (deepnever) next to productive siblings with 40 obligations each (branches alone get 6000 steps, the whole disjunction 64*max(s_i)+10000)",
        assumptions: vec!["bounded liveness only: a fair scheduler more than ~2500x slower than the bound would be misreported; needs the step-counter hook"],
        families: vec![
            Family { name: "disjunctions", max_len: 64, quick: 60_000, thorough: 1_200_000, run: run_family },
            Family { name: "scale", max_len: 48, quick: 3_000, thorough: 30_000, run: run_scale },
        ],
        fixed: vec![Fixed { name: "never-before-finite", run: fixed_never_first }, Fixed { name: "two-always-producers", run: fixed_two_always }],
        witnesses: vec![],
        exhaustive: None,
        exhaustive_in_quick: false,
        custom: None,
        custom_replay: None,
    }
}
