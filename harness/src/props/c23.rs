//! C23 — solving well-formed programs never panics.
//! Every generator of the framework at enlarged size bounds, BFS and DFS builds; the only
//! oracle is "no panic other than the step-budget payload".

use crate::ast::{Goal, Program};
use crate::framework::*;
use crate::gen::fd::{gen_case, FdCfg};
use crate::gen::search::{gen_program as gen_search, SearchCfg};
use crate::gen::tree::{gen_program as gen_tree, TreeCfg};
use crate::run::{self, End, Limits, Mode};
use crate::source::{hash_str, Source};
use serde_json::json;

pub const FINDING_PROJECT: &str = "C23-project-panic";

fn check(p: &Program, modes: &[Mode], family: &'static str, ctx: &Ctx) -> CaseInfo {
    check_with(p, modes, family, ctx, Limits { max_answers: 200, budget: 200_000 })
}

fn check_with(p: &Program, modes: &[Mode], family: &'static str, ctx: &Ctx, lim: Limits) -> CaseInfo {
    let mut info = CaseInfo::default();
    let desc = p.show();
    info.key = hash_str(&desc);
    info.class(family);
    let mut steps = 0;
    for m in modes {
        let out = run::run(p, *m, lim);
        steps = steps.max(out.steps);
        if ctx.want_sample && info.sample.is_none() {
            info.sample = Some(json!({ "program": desc, "family": family, "answers": out.answers.len(), "end": format!("{:?}", out.end), "steps": out.steps }));
        }
        if let End::Panic(pi) = &out.end {
            let project = pi.message.contains("Cannot project non-Projection LTerm.") && p.body.iter().any(|g| g.any(&|x| matches!(x, Goal::Project(..))));
            if project && !ctx.strict && finding_is_open(FINDING_PROJECT) {
                info.known.push(FINDING_PROJECT);
                continue;
            }
            info.fail(format!("C23:panic:{}", pi.key()), format!("{} [{:?}]\n  panicked: {} at {}", desc, m, pi.message, pi.location));
            return info;
        }
        if matches!(out.end, End::Budget(_)) {
            info.class("bounded-prefix");
        }
    }
    info.nontrivial = p.goal_count() >= 3 && steps >= 50;
    info
}

fn fam_tree(bytes: &[u8], ctx: &Ctx) -> CaseInfo {
    let mut s = Source::new(bytes);
    let mut cfg = TreeCfg::c02();
    cfg.max_atoms = 14;
    cfg.max_fresh = 4;
    cfg.nq_max = 3;
    cfg.max_depth = 3;
    cfg.kinds = crate::ast::Kind::ALL.to_vec();
    let p = gen_tree(&mut s, &cfg);
    // a third of the cases each in one of the builder's construction modes (macro expansion,
    // from_conjunctions / from_vec, pairwise new)
    let mode = (bytes.iter().map(|b| *b as u32).sum::<u32>() % 3) as u8;
    crate::build::with_api_mode(mode, || check(&p, &[Mode::Bfs, Mode::Dfs], "tree", ctx))
}

fn fam_search(bytes: &[u8], ctx: &Ctx) -> CaseInfo {
    let mut s = Source::new(bytes);
    let mut cfg = SearchCfg::dfs();
    cfg.max_goals = 16;
    cfg.max_depth = 4;
    cfg.nq_max = 3;
    let p = gen_search(&mut s, &cfg);
    let mode = (bytes.iter().map(|b| *b as u32).sum::<u32>() % 3) as u8;
    crate::build::with_api_mode(mode, || check(&p, &[Mode::Bfs, Mode::Dfs], "search", ctx))
}

fn fam_fd(bytes: &[u8], ctx: &Ctx) -> CaseInfo {
    let mut s = Source::new(bytes);
    let mut cfg = FdCfg::full();
    cfg.max_vars = 5;
    cfg.max_constraints = 8;
    cfg.lo = -6;
    cfg.hi = 9;
    cfg.non_int_eq = true;
    let c = gen_case(&mut s, &cfg);
    // FD goals are generic in the goal kind, so both builds are exercised
    check(&c.program(), &[Mode::Bfs, Mode::Dfs], "fd", ctx)
}

/// One large dimension: long / deep terms and long chains of bindings (C01's scale cases as
/// queries), hundreds of stored disequalities (C02's), wide disjunctions / long chains of choice
/// points / deep recursion (C05's), wide finite domains (C16's).
fn fam_scale(bytes: &[u8], ctx: &Ctx) -> CaseInfo {
    let mut s = Source::new(bytes);
    let thorough = ctx.tier == Tier::Thorough;
    let (p, kind) = crate::props::scale_mix::any_program(&mut s, thorough);
    let mut info = check_with(&p, &[Mode::Bfs, Mode::Dfs], kind.label(), ctx, Limits { max_answers: 3000, budget: 3_000_000 });
    truncate_sample(&mut info, 400);
    info
}

/// Wide finite domains (intervals of hundreds of values, long sparse domains, several domains
/// per variable): the generator of C16's wide-domains family, both builds.
fn fam_fd_wide(bytes: &[u8], ctx: &Ctx) -> CaseInfo {
    let mut s = Source::new(bytes);
    let c = crate::gen::fd::gen_case_wide(&mut s, ctx.tier == Tier::Thorough);
    let mut info = check_with(&c.program(), &[Mode::Bfs, Mode::Dfs], "fd-wide", ctx, Limits { max_answers: 3000, budget: 1_000_000 });
    truncate_sample(&mut info, 400);
    info
}

macro_rules! reuse {
    ($name:ident, $path:path, $label:expr) => {
        fn $name(bytes: &[u8], ctx: &Ctx) -> CaseInfo {
            // the other property's own evaluation; only panics matter here
            let inner = $path(bytes, ctx);
            let mut info = CaseInfo { key: inner.key, nontrivial: inner.nontrivial, sample: inner.sample, ..Default::default() };
            info.class($label);
            if let Some(f) = inner.failure {
                if f.signature.contains(":panic:") {
                    info.fail(format!("C23:{}", f.signature), f.detail);
                }
            }
            for k in inner.known {
                if k == "C11-project-reached-twice" && finding_is_open(FINDING_PROJECT) {
                    info.known.push(FINDING_PROJECT);
                }
            }
            info
        }
    };
}

reuse!(fam_clpz, crate::props::c19::run_family_pub, "clpz");
reuse!(fam_project, crate::props::c11::run_family_pub, "project");
reuse!(fam_for, crate::props::c12::run_family_pub, "for");
reuse!(fam_committed, crate::props::c08::run_family_pub, "committed-choice");
reuse!(fam_match, crate::props::c08::run_match_pub, "matcha-matchu");
reuse!(fam_compound, crate::props::c20::run_tree_pub, "compound");
reuse!(fam_infinite, crate::props::c06::run_infinite_pub, "infinite-prefix");
reuse!(fam_branches, crate::props::c10::run_family_pub, "prefix-branches");

fn witness_project() -> Option<String> {
    crate::props::c11::witness_pub().map(|_| "a query that reaches a `project` goal with two states panics with 'Cannot project non-Projection LTerm.' (same root cause as C11-project-reached-twice)".to_string())
}

pub fn def() -> PropertyDef {
    PropertyDef {
        id: "C23",
        rule: "every generator of the framework: tree programs (14 atoms, 4 fresh variables, depth 3, all compound kinds), search programs (16 goals, depth 4) and FD programs (5 variables, 8 constraints, domains -6..=9) at enlarged bounds, each built and run both as interleaving search and wrapped in dfs{}; plus the CLP(Z), project, for, committed-choice, matcha/matchu, compound, infinite-prefix and prefix/branches generators through their own evaluations. Oracle: no panic other than the step-budget payload (overflow checks and debug assertions are on). Non-trivial = >=3 goals and >=50 engine steps (own families) or the source property's rule (reused families); distinct = hash of the printed program. Family `scale`: programs with one large dimension (terms of up to 400/1000 levels and chains of var-var bindings, hundreds of stored disequalities, disjunctions of hundreds of clauses, chains of choice points, recursion hundreds of levels deep, finite domains of hundreds of values). Panics raised by a second state reaching `project` are the listed finding C23-project-panic",
        assumptions: vec!["well-formed = operands of the kinds the relations document, every FD operand given a domain before labeling, small integers (no isize overflow)", "compiled surface programs (pattern matching through the macros) are run by the C13-C15 pipeline, which reports panics itself"],
        families: vec![
            Family { name: "tree-large", max_len: 300, quick: 60_000, thorough: 1_500_000, run: fam_tree },
            Family { name: "search-large", max_len: 300, quick: 40_000, thorough: 1_000_000, run: fam_search },
            Family { name: "fd-large", max_len: 200, quick: 60_000, thorough: 1_500_000, run: fam_fd },
            Family { name: "clpz", max_len: 64, quick: 60_000, thorough: 1_000_000, run: fam_clpz },
            Family { name: "project", max_len: 64, quick: 30_000, thorough: 500_000, run: fam_project },
            Family { name: "for", max_len: 96, quick: 30_000, thorough: 500_000, run: fam_for },
            Family { name: "committed-choice", max_len: 200, quick: 30_000, thorough: 500_000, run: fam_committed },
            Family { name: "matcha-matchu", max_len: 96, quick: 20_000, thorough: 300_000, run: fam_match },
            Family { name: "compound", max_len: 200, quick: 30_000, thorough: 500_000, run: fam_compound },
            Family { name: "infinite-prefix", max_len: 160, quick: 4_000, thorough: 60_000, run: fam_infinite },
            Family { name: "prefix-branches", max_len: 120, quick: 30_000, thorough: 500_000, run: fam_branches },
            Family { name: "scale", max_len: 96, quick: 12_000, thorough: 120_000, run: fam_scale },
            Family { name: "fd-wide", max_len: 96, quick: 80_000, thorough: 1_500_000, run: fam_fd_wide },
        ],
        fixed: vec![],
        witnesses: vec![Witness { finding: FINDING_PROJECT, run: witness_project }],
        exhaustive: None,
        exhaustive_in_quick: false,
        custom: None,
        custom_replay: None,
    }
}
