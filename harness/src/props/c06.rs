//! C06 — interleaving search loses no answers and invents none.

use crate::ast::{Goal, Program, Rel, Term, VarId};
use crate::canon;
use crate::framework::*;
use crate::gen::search::{gen_program, SearchCfg, SearchGen};
use crate::model::interp;
use crate::oracle::{self, RefResult, Verdict};
use crate::run::{self, Limits, Mode};
use crate::source::{hash_str, Source};
use serde_json::json;

pub fn eval_finite(p: &Program, ctx: &Ctx) -> CaseInfo {
    eval_finite_with(p, ctx, 80)
}

pub fn eval_finite_with(p: &Program, ctx: &Ctx, max_ref: usize) -> CaseInfo {
    let mut info = CaseInfo::default();
    let desc = p.show();
    info.key = hash_str(&desc);
    let reference = match oracle::reference_answers(p) {
        RefResult::Answers(a) => a,
        RefResult::Skip(w) => return CaseInfo { skip: Some(w), ..info },
    };
    if reference.len() > max_ref {
        return CaseInfo::skip("too-many-answers");
    }
    let lim = Limits { max_answers: 1000.max(2 * max_ref), budget: 3_000_000.max(20_000 * max_ref as u64) };
    let bfs = run::run(p, Mode::Bfs, lim);
    let dfs = run::run(p, Mode::Dfs, lim);
    if ctx.want_sample {
        info.sample = Some(json!({ "program": desc, "interleaving": run::show_answers(&bfs.answers), "depth_first": run::show_answers(&dfs.answers), "reference": run::show_answers(&reference) }));
    }
    let u = canon::universe(&[p], &[], canon::count_diseqs(p) + 2, 9);
    let has_disj = p.body.iter().any(|g| g.any(&|x| matches!(x, Goal::Conde(..) | Goal::Call(..))));
    info.nontrivial = reference.len() >= 2 && has_disj;
    if bfs.answers != dfs.answers && bfs.complete() && dfs.complete() {
        info.class("orders-differ");
    }
    if p.body.iter().any(|g| g.any(&|x| matches!(x, Goal::Call(..) | Goal::Closure(..)))) {
        info.class("lazily-produced-answers");
    }
    // the same goals built with the constructor functions of the public API instead of the
    // operators the macros expand to
    let fn1 = crate::build::with_api_mode(1, || run::run(p, Mode::Bfs, lim));
    let fn2 = crate::build::with_api_mode(2, || run::run(p, Mode::Dfs, lim));
    for (name, out) in [("interleaving", &bfs), ("depth-first", &dfs), ("interleaving, goals built with Disj::from_conjunctions / Conj::from_vec", &fn1), ("depth-first, goals built with DFSDisj::new / DFSConj::new", &fn2)] {
        match oracle::compare_with_reference("C06", p, out, &reference, &u) {
            Verdict::Ok => {}
            Verdict::Skip(w) => return CaseInfo { skip: Some(w), ..info },
            Verdict::Fail(sig, detail) => {
                info.fail(format!("{}:{}", sig, name), format!("[{} search] {}", name, detail));
                return info;
            }
        }
    }
    info
}

fn run_finite(bytes: &[u8], ctx: &Ctx) -> CaseInfo {
    let mut s = Source::new(bytes);
    let p = gen_program(&mut s, &SearchCfg::dfs());
    eval_finite(&p, ctx)
}

fn run_scale(bytes: &[u8], ctx: &Ctx) -> CaseInfo {
    let mut s = Source::new(bytes);
    let thorough = ctx.tier == Tier::Thorough;
    let p = crate::gen::scale::search_program(&mut s, thorough, 0);
    if std::env::var("PVH_SHOW").is_ok() {
        eprintln!("SHOW {}", p.show());
    }
    let mut info = eval_finite_with(&p, ctx, 4 * crate::gen::scale::cap(thorough) + 16);
    truncate_sample(&mut info, 600);
    let g = p.goal_count();
    info.class(if g >= 256 { "goals>=256" } else if g >= 64 { "goals>=64" } else { "goals<64" });
    info
}

/// Infinite programs: a producer prefix / branch followed by family S goals.
fn gen_infinite(s: &mut Source) -> Program {
    let nq = 1 + s.below(2);
    let mut next_var = nq as VarId;
    let q0 = Term::Var(0);
    let mut body = vec![];
    let x = next_var;
    next_var += 1;
    let producer: Goal = match s.weighted(&[2, 2, 3, 2, 2, 2]) {
        // `loop { a, b }`: a body of two goals
        5 => Goal::Anyo(vec![Goal::Call(Rel::Member, vec![q0.clone(), Term::ints(&[1, 2, 3])]), Goal::Diseq(q0.clone(), Term::Int(2))]),
        0 => Goal::Always,
        1 => Goal::Anyo(vec![Goal::Call(Rel::Member, vec![q0.clone(), Term::ints(&[1, 2])])]),
        2 => Goal::Fresh(vec![x], vec![Goal::Call(Rel::Nat, vec![Term::Var(x)]), Goal::Eq(q0.clone(), Term::cons(Term::Int(7), Term::Var(x)))]),
        3 => Goal::Call(Rel::Nat, vec![q0.clone()]),
        _ => Goal::Conde(vec![vec![Goal::Eq(q0.clone(), Term::Int(5))], vec![Goal::Anyo(vec![Goal::Eq(q0.clone(), Term::Int(6))])], vec![Goal::Never]]),
    };
    let mut g = SearchGen { s, cfg: SearchCfg { max_goals: 4, max_depth: 2, ..SearchCfg::dfs() }, next_var, goals_left: 4 };
    let mut scope: Vec<VarId> = (0..nq as VarId).collect();
    let rest = g.goals(&mut scope, 1, 1);
    if g.s.flag(128) {
        body.push(producer);
        body.extend(rest);
    } else {
        // producer as one branch of a disjunction
        body.push(Goal::Conde(vec![vec![producer], rest]));
    }
    Program { nq, body }
}

pub fn eval_infinite(p: &Program, ctx: &Ctx) -> CaseInfo {
    let mut info = CaseInfo::default();
    let desc = p.show();
    info.key = hash_str(&desc);
    let out = run::run(p, Mode::Bfs, Limits::first(25, 30_000));
    if ctx.want_sample {
        info.sample = Some(json!({ "program": desc, "first_answers": run::show_answers(&out.answers), "end": format!("{:?}", out.end) }));
    }
    if let run::End::Panic(pi) = &out.end {
        info.fail(format!("C06:panic:{}", pi.key()), format!("{}\n  panicked: {} at {}", desc, pi.message, pi.location));
        return info;
    }
    info.nontrivial = out.answers.len() >= 5;
    if matches!(out.end, run::End::Truncated) {
        info.class("infinite-stream-prefix");
    }
    let u = canon::universe(&[p], &[], 2, 5);
    let mut checked = 0;
    for a in &out.answers {
        let k = canon::term_var_count(a);
        if k > 3 {
            continue;
        }
        let sat = match canon::satisfying(a, k, &u) {
            Some(s) => s,
            None => continue,
        };
        let n = u.0.len();
        let mut tried = 0;
        for (i, ok) in sat.iter().enumerate() {
            if !*ok {
                continue;
            }
            tried += 1;
            if tried > 2 {
                break;
            }
            let mut x = i;
            let mut asg = vec![];
            for _ in 0..k {
                asg.push(u.0[x % n].clone());
                x /= n;
            }
            let g: Vec<Term> = a.terms.iter().map(|t| t.map_vars(&mut |v| asg.get(v as usize).cloned().unwrap_or(Term::Nil))).collect();
            match interp::holds(p, &g, 500) {
                Ok(true) => checked += 1,
                Ok(false) => {
                    info.fail(
                        "C06:invented-answer",
                        format!("{}\n  answer {} has the ground instance {:?}, which is not a solution of the program (reference)", desc, run::show_answer(a), g.iter().map(|t| crate::ast::show_term(t, 0)).collect::<Vec<_>>()),
                    );
                    return info;
                }
                Err(_) => {}
            }
        }
    }
    if checked == 0 && !out.answers.is_empty() {
        return CaseInfo { skip: Some("no-instance-decidable"), ..info };
    }
    info
}

fn run_infinite(bytes: &[u8], ctx: &Ctx) -> CaseInfo {
    let mut s = Source::new(bytes);
    let p = gen_infinite(&mut s);
    if std::env::var("PVH_SHOW").is_ok() {
        eprintln!("SHOW {}", p.show());
    }
    eval_infinite(&p, ctx)
}

pub fn run_infinite_pub(bytes: &[u8], ctx: &Ctx) -> CaseInfo {
    run_infinite(bytes, ctx)
}

pub fn def() -> PropertyDef {
    PropertyDef {
        id: "C06",
        rule: "finite family: family S programs (finite search tree by construction) run under the default interleaving search and wrapped in dfs{}: both answer multisets must equal the reference interpreter's (nothing lost, nothing invented, multiplicities kept). Infinite family: a producer (always, loop{..}, nat, a conde with never()) as prefix or branch of family S goals: up to 4 ground instances of each of the first 25 answers must be solutions according to the reference set semantics. Non-trivial = finite: >=2 answers and a disjunction or relation call; infinite: >=5 answers obtained; distinct = hash of the printed program. Family `scale`: the scaled search programs of C05 (wide disjunctions, long chains of choice points, deep recursion) under both searches against the reference",
        assumptions: vec!["reference interpreter and its mirrored relation definitions are correct", "for infinite streams only soundness of a bounded prefix is decided (completeness of an infinite stream is C07's bounded liveness)"],
        families: vec![
            Family { name: "finite", max_len: 200, quick: 200_000, thorough: 5_000_000, run: run_finite },
            Family { name: "infinite", max_len: 160, quick: 20_000, thorough: 400_000, run: run_infinite },
            Family { name: "scale", max_len: 48, quick: 6_000, thorough: 60_000, run: run_scale },
        ],
        fixed: vec![],
        witnesses: vec![],
        exhaustive: None,
        exhaustive_in_quick: false,
        custom: None,
        custom_replay: None,
    }
}
