//! C09 — query iteration is lazy, fused and deterministic.

use crate::ast::{Goal, Program, Rel, Term, VarId};
use crate::canon::{self, Cmp};
use crate::framework::*;
use crate::gen::fd::{gen_case, FdCfg};
use crate::gen::search::{gen_program as gen_search, SearchCfg};
use crate::gen::tree::{gen_program as gen_tree, TreeCfg};
use crate::run::{self, Answer, End, Limits, Mode, Outcome};
use crate::source::{hash_str, hex, Source};
use serde_json::json;

fn decode(s: &mut Source) -> (Program, &'static str) {
    match s.weighted(&[3, 3, 5]) {
        0 => {
            let mut cfg = TreeCfg::c02();
            cfg.max_atoms = 8;
            (gen_tree(s, &cfg), "tree")
        }
        1 => (gen_search(s, &SearchCfg::dfs()), "search"),
        _ => {
            let mut cfg = FdCfg::full();
            cfg.max_vars = 4;
            cfg.max_constraints = 6;
            let c = gen_case(s, &cfg);
            (c.program(), "fd")
        }
    }
}

fn lim() -> Limits {
    Limits { max_answers: 400, budget: 1_500_000 }
}

/// Constraint set of an answer up to the order of its constraints, the order of the pairs inside
/// a constraint and the orientation of a pair. None when a constraint mentions a variable that
/// does not occur in the answer terms (such variables are numbered in reporting order, which is
/// exactly what may vary: those answers are compared semantically only).
fn syntactic_cons(a: &Answer) -> Option<Vec<Vec<(crate::ast::Term, crate::ast::Term)>>> {
    let k = canon::term_var_count(a) as VarId;
    let mut out = vec![];
    for c in &a.cons {
        let mut pairs = vec![];
        for (x, y) in c {
            let mut vs = vec![];
            x.vars(&mut vs);
            y.vars(&mut vs);
            if vs.iter().any(|v| *v >= k) {
                return None;
            }
            pairs.push(if x <= y { (x.clone(), y.clone()) } else { (y.clone(), x.clone()) });
        }
        pairs.sort();
        out.push(pairs);
    }
    out.sort();
    Some(out)
}

fn same_sequence(a: &[Answer], b: &[Answer], u: &canon::Universe) -> Option<usize> {
    if a.len() != b.len() {
        return Some(a.len().min(b.len()));
    }
    for (i, (x, y)) in a.iter().zip(b.iter()).enumerate() {
        if x == y {
            continue;
        }
        if canon::equiv(x, y, u) == Cmp::Different {
            return Some(i);
        }
        // The property allows renaming of reified variables and another order of the elements
        // of a constraint set, nothing else: the reported constraints themselves must be the
        // same (`!(_0 == _1 && _1 == _2)` in one run and `!(_0 == _2 && _1 == _2)` in the next is
        // a difference although both denote the same set of ground instances).
        if x.terms == y.terms {
            if let (Some(cx), Some(cy)) = (syntactic_cons(x), syntactic_cons(y)) {
                if cx != cy {
                    return Some(i);
                }
                continue;
            }
        }
        // constraints over variables that do not occur in the terms: at least the number of
        // reported constraints must agree
        if let (Ok(cx), Ok(cy)) = (canon::normal_cons(x), canon::normal_cons(y)) {
            if cx.len() != cy.len() {
                return Some(i);
            }
        }
    }
    None
}

fn ends_agree(a: &Outcome, b: &Outcome) -> bool {
    std::mem::discriminant(&a.end) == std::mem::discriminant(&b.end)
}

pub fn eval_det(p: &Program, kind: &'static str, cross_process: Option<&[u8]>, ctx: &Ctx) -> CaseInfo {
    let mut info = CaseInfo::default();
    let desc = p.show();
    info.key = hash_str(&desc);
    info.class(kind);
    let outs = run::run_same_query(p, Mode::Bfs, lim(), 2);
    let first = &outs[0];
    if ctx.want_sample {
        info.sample = Some(json!({ "program": desc, "answer_sequence": run::show_answers(&first.answers), "runs_compared": if cross_process.is_some() { "same Query twice + 4 rebuilt runs + 2 child processes" } else { "same Query twice + 4 rebuilt runs" } }));
    }
    if let End::Panic(pi) = &first.end {
        info.fail(format!("C09:panic:{}", pi.key()), format!("{}\n  panicked: {} at {}", desc, pi.message, pi.location));
        return info;
    }
    if !first.complete() {
        return CaseInfo { skip: Some("incomplete"), ..info };
    }
    let u = canon::universe(&[p], &[], canon::count_diseqs(p) + 2, 9);
    let ncons: usize = first.answers.iter().map(|a| a.cons.len()).max().unwrap_or(0);
    let nfdvars = {
        let mut vs = vec![];
        for g in &p.body {
            g.visit_terms(&mut |_t| {});
            if g.any(&|x| matches!(x, Goal::Fd(..))) {
                g.visit_vars(&mut |v| {
                    if !vs.contains(&v) {
                        vs.push(v)
                    }
                });
            }
        }
        vs.len()
    };
    info.nontrivial = first.answers.len() >= 2 && (ncons >= 2 || nfdvars >= 2);
    // fused
    for o in &outs {
        if !o.fused {
            info.fail("C09:iterator-not-fused", format!("{}\n  next() returned Some after it had returned None", desc));
            return info;
        }
    }
    // second run of the same Query object
    if outs.len() == 2 {
        let second = &outs[1];
        if let End::Panic(pi) = &second.end {
            info.fail(format!("C09:second-run-panic:{}", pi.key()), format!("{}\n  the second run() of the same Query panicked: {} at {}", desc, pi.message, pi.location));
            return info;
        }
        if !ends_agree(first, second) || same_sequence(&first.answers, &second.answers, &u).is_some() {
            info.fail("C09:second-run-of-same-query-differs", format!("{}\n  first run:  {}\n  second run: {}", desc, run::show_answers(&first.answers), run::show_answers(&second.answers)));
            return info;
        }
    }
    // rebuilt and re-run: every HashMap draws a fresh RandomState, constraint pointers differ
    for i in 0..4 {
        let o = run::run(p, Mode::Bfs, lim());
        if !ends_agree(first, &o) {
            continue;
        }
        if let Some(pos) = same_sequence(&first.answers, &o.answers, &u) {
            info.fail(
                "C09:rerun-differs",
                format!("{}\n  run 1: {}\n  run {}: {}\n  first difference at position {}", desc, run::show_answers(&first.answers), i + 2, run::show_answers(&o.answers), pos),
            );
            return info;
        }
    }
    // other processes (other hash seeds)
    if let Some(bytes) = cross_process {
        info.class("cross-process");
        let exe = std::env::current_exe().ok();
        if let Some(exe) = exe {
            for _ in 0..2 {
                let outp = std::process::Command::new(&exe).arg("worker").arg("C09").arg(hex(bytes)).output();
                let text = match outp {
                    Ok(o) if o.status.success() => String::from_utf8_lossy(&o.stdout).to_string(),
                    _ => return CaseInfo { skip: Some("worker-failed"), ..info },
                };
                let line = text.lines().rev().find(|l| l.starts_with("ANSWERS ")).map(|l| l[8..].to_string());
                let other: Vec<Answer> = match line.and_then(|l| serde_json::from_str(&l).ok()) {
                    Some(v) => v,
                    None => return CaseInfo { skip: Some("worker-output"), ..info },
                };
                if let Some(pos) = same_sequence(&first.answers, &other, &u) {
                    info.fail(
                        "C09:other-process-differs",
                        format!("{}\n  this process:  {}\n  other process: {}\n  first difference at position {}", desc, run::show_answers(&first.answers), run::show_answers(&other), pos),
                    );
                    return info;
                }
            }
        }
    }
    info
}

pub fn worker(bytes: &[u8]) -> String {
    let mut s = Source::new(bytes);
    let (p, _) = decode(&mut s);
    let o = run::run(&p, Mode::Bfs, lim());
    format!("ANSWERS {}", serde_json::to_string(&o.answers).unwrap())
}

fn run_det(bytes: &[u8], ctx: &Ctx) -> CaseInfo {
    let mut s = Source::new(bytes);
    let (p, kind) = decode(&mut s);
    eval_det(&p, kind, None, ctx)
}

/// Determinism with one large dimension (hundreds of constraints in the store, hundreds of
/// clauses, wide finite domains): iteration order of internal hash containers matters most here.
fn run_det_scale(bytes: &[u8], ctx: &Ctx) -> CaseInfo {
    let mut s = Source::new(bytes);
    let (p, kind) = crate::props::scale_mix::any_program(&mut s, ctx.tier == Tier::Thorough);
    let mut info = eval_det(&p, kind.label(), None, ctx);
    truncate_sample(&mut info, 400);
    info
}

/// Multi-pair disequalities whose pairs share variables (`[a, b] != [b, c]`), re-run by later
/// unifications: the residual constraint that is reported must not depend on the run.
fn run_diseq_chains(bytes: &[u8], ctx: &Ctx) -> CaseInfo {
    let mut s = Source::new(bytes);
    let nq = 2 + s.below(3);
    let nfresh = s.below(3);
    let nv = nq + nfresh;
    let var = |s: &mut Source| Term::Var(s.below(nv) as VarId);
    let item = |s: &mut Source| match s.weighted(&[2, 5, 2]) {
        0 => Term::Int(s.range(0, 2)),
        1 => Term::Var(s.below(nv) as VarId),
        // a list or compound around a variable (the right-hand side of a stored pair is then not a variable)
        _ => {
            if s.flag(128) {
                Term::list(vec![Term::Var(s.below(nv) as VarId)])
            } else {
                Term::Cmp(crate::ast::Kind::Pair, vec![Term::Var(s.below(nv) as VarId), Term::Int(s.range(0, 1))])
            }
        }
    };
    let mut inner: Vec<Goal> = vec![];
    let nd = 1 + s.below(2);
    for _ in 0..nd {
        let k = 2 + s.below(3);
        let left: Vec<Term> = (0..k).map(|_| item(&mut s)).collect();
        // the right side is the left side shifted by one (a chain) or independent
        let right: Vec<Term> = if s.flag(150) {
            let last = item(&mut s);
            left.iter().skip(1).cloned().chain([last]).collect()
        } else {
            (0..k).map(|_| item(&mut s)).collect()
        };
        inner.push(Goal::Diseq(Term::list(left), Term::list(right)));
    }
    let ne = 1 + s.below(3);
    for _ in 0..ne {
        let g = match s.weighted(&[3, 2, 2]) {
            0 => Goal::Eq(var(&mut s), Term::Int(s.range(0, 2))),
            1 => Goal::Eq(var(&mut s), var(&mut s)),
            _ => Goal::Conde(vec![vec![Goal::Eq(var(&mut s), Term::Int(s.range(0, 2)))], vec![Goal::Eq(var(&mut s), var(&mut s))]]),
        };
        let at = if s.flag(200) { inner.len() } else { s.below(inner.len() + 1) };
        inner.insert(at, g);
    }
    if nfresh > 0 {
        // expose the fresh variables through the first query variable, as the last goal
        let fresh: Vec<VarId> = (nq..nv).map(|v| v as VarId).collect();
        inner.push(Goal::Eq(Term::Var(0), Term::list(fresh.iter().map(|v| Term::Var(*v)).collect())));
        inner = vec![Goal::Fresh(fresh, inner)];
    }
    let p = Program { nq, body: inner };
    if std::env::var("PVH_SHOW").is_ok() {
        eprintln!("SHOW {}", p.show());
    }
    let mut info = eval_det(&p, "diseq-chains", None, ctx);
    // here a single answer with a multi-pair constraint is already interesting
    if let Some(v) = info.sample.as_ref() {
        let _ = v;
    }
    info.nontrivial = info.nontrivial || p.body.iter().any(|g| g.any(&|x| matches!(x, Goal::Diseq(..))));
    info
}

/// A finite-domain branch whose LAST goal is one unification binding two or three domain
/// variables at once (`[p, w] == [r, a]`), next to a sibling branch that produces answers at the
/// same time: the order in which the new bindings are processed decides how much is pruned before
/// labeling, hence the number of steps, hence the interleaving with the sibling.
fn run_fd_multi(bytes: &[u8], ctx: &Ctx) -> CaseInfo {
    use crate::ast::FdGoal;
    let mut s = Source::new(bytes);
    let nfd = 4 + s.below(3);
    // variable ids: q0 is the query variable, fd variables 1..=nfd, m = nfd + 1
    let fv = |i: usize| Term::Var((1 + i) as VarId);
    let mut a: Vec<Goal> = vec![];
    // domains: a common one, then a few narrower ones
    a.push(Goal::Fd(FdGoal::InFdRange(Term::list((0..nfd).map(fv).collect()), 0, 4)));
    let nn = s.below(3);
    for _ in 0..nn {
        let lo = s.range(0, 3);
        let hi = s.range(lo, 4);
        let which = if s.flag(128) { nfd - 1 } else { s.below(nfd) };
        a.push(Goal::Fd(FdGoal::InFdRange(fv(which), lo, hi)));
    }
    let structured = s.flag(150);
    let mut extra_fresh = 0usize;
    if structured {
        // a chain of constraints v0 - v1 - ... - vk posted along or against the direction in
        // which a bound will travel, and a final unification that aliases one end of the chain
        // with a variable of a narrower domain while binding another pair as well
        let k = 2 + s.below(2);
        let mut links: Vec<Goal> = (0..k)
            .map(|i| {
                let (x, y) = (fv(i + 1), fv(i));
                match s.weighted(&[4, 2, 2]) {
                    0 => Goal::Fd(FdGoal::Lte(x, y)),
                    1 => Goal::Fd(FdGoal::Lt(x, y)),
                    _ => Goal::Fd(FdGoal::Plus(x, Term::Int(s.range(0, 1)), y)),
                }
            })
            .collect();
        if s.flag(128) {
            links.reverse();
        }
        a.extend(links);
        // exposed: the chain (first variables first: they are labeled first)
        let ne = 2 + s.below(3);
        let mut shown: Vec<Term> = (0..ne.min(k + 1)).map(fv).collect();
        if s.flag(100) {
            shown.reverse();
        }
        shown.push(fv(nfd - 1));
        a.push(Goal::Eq(Term::Var(0), Term::list(shown)));
        // the other variables: nfd-1, nfd-2 (.. nfd >= 4, k <= 3 so at least one is off the chain)
        let end = if s.flag(170) { fv(k) } else { fv(0) };
        let narrow = fv(nfd - 1);
        let other = (fv(nfd - 2), if s.flag(128) { fv(s.below(nfd)) } else { Term::Int(s.range(0, 4)) });
        let mut pairs = vec![(narrow, end), other];
        if s.flag(128) {
            pairs.reverse();
        }
        if s.flag(128) {
            pairs = pairs.into_iter().map(|(x, y)| (y, x)).collect();
        }
        // further pairs that bind variables WITHOUT a domain in the same unification (the
        // extension may then be larger than the domain store)
        let nx = s.below(8);
        for i in 0..nx {
            let e = Term::Var((nfd + 2 + i) as VarId);
            let at = s.below(pairs.len() + 1);
            pairs.insert(at, (e, Term::Int(s.range(0, 4))));
        }
        extra_fresh = nx;
        a.push(Goal::Eq(Term::list(pairs.iter().map(|p| p.0.clone()).collect()), Term::list(pairs.iter().map(|p| p.1.clone()).collect())));
    } else {
        let nc = 1 + s.below(4);
        for _ in 0..nc {
            let (x, y) = (fv(s.below(nfd)), fv(s.below(nfd)));
            a.push(match s.weighted(&[4, 2, 2, 1]) {
                0 => Goal::Fd(FdGoal::Lte(x, y)),
                1 => Goal::Fd(FdGoal::Lt(x, y)),
                2 => Goal::Fd(FdGoal::Plus(x, Term::Int(s.range(0, 2)), y)),
                _ => Goal::Fd(FdGoal::Diseq(x, y)),
            });
        }
        // expose some of the variables
        let ne = 2 + s.below(3);
        a.push(Goal::Eq(Term::Var(0), Term::list((0..ne).map(|_| fv(s.below(nfd))).collect())));
        // the multi-binding unification, last
        let np = 2 + s.below(2);
        let left: Vec<Term> = (0..np).map(|_| fv(s.below(nfd))).collect();
        let right: Vec<Term> = (0..np).map(|_| if s.flag(40) { Term::Int(s.range(0, 4)) } else { fv(s.below(nfd)) }).collect();
        a.push(Goal::Eq(Term::list(left), Term::list(right)));
    }
    let mut fresh_a: Vec<VarId> = (1..=nfd as VarId).collect();
    fresh_a.extend((0..extra_fresh).map(|i| (nfd + 2 + i) as VarId));
    let m = (nfd + 1) as VarId;
    let nsib = 5 + s.below(20);
    let b = vec![Goal::Fresh(vec![m], vec![Goal::Call(Rel::Member, vec![Term::Var(m), Term::ints(&(100..100 + nsib as i64).collect::<Vec<i64>>())]), Goal::Eq(Term::Var(0), Term::list(vec![Term::Var(m)]))])];
    let clauses = if s.flag(128) { vec![vec![Goal::Fresh(fresh_a, a)], b] } else { vec![b, vec![Goal::Fresh(fresh_a, a)]] };
    let p = Program { nq: 1, body: vec![Goal::Conde(clauses)] };
    if std::env::var("PVH_SHOW").is_ok() {
        eprintln!("SHOW {}", p.show());
    }
    eval_det(&p, "fd-multi-binding", None, ctx)
}

/// Finite-domain variables that are NOT part of the answer (hidden) get one witness value at
/// reification; when a tree disequality on a query variable mentions them, the reported
/// constraint shows that witness - which must not depend on the run.
fn run_hidden_witness(bytes: &[u8], ctx: &Ctx) -> CaseInfo {
    use crate::ast::FdGoal;
    let mut s = Source::new(bytes);
    let nh = 2 + s.below(3);
    let h = |i: usize| Term::Var((1 + i) as VarId);
    let mut inner: Vec<Goal> = vec![];
    let lo = s.range(0, 2);
    let hi = s.range(lo + 1, lo + 3);
    inner.push(Goal::Fd(FdGoal::InFdRange(Term::list((0..nh).map(h).collect()), lo, hi)));
    let nc = s.below(3);
    for _ in 0..nc {
        let (x, y) = (h(s.below(nh)), h(s.below(nh)));
        inner.push(match s.weighted(&[3, 2, 2]) {
            0 => Goal::Fd(FdGoal::Diseq(x, y)),
            1 => Goal::Fd(FdGoal::Lte(x, y)),
            _ => Goal::Fd(FdGoal::Lt(x, y)),
        });
    }
    let k = 1 + s.below(nh.min(3));
    let items: Vec<Term> = (0..k).map(|_| h(s.below(nh))).collect();
    inner.push(match s.below(3) {
        0 => Goal::Diseq(Term::Var(0), Term::list(items)),
        1 => Goal::Diseq(Term::list(items), Term::Var(0)),
        _ => Goal::Diseq(Term::list(vec![Term::Var(0), items[0].clone()]), Term::list(vec![Term::Int(s.range(0, 2)), items[items.len() - 1].clone()])),
    });
    if s.flag(80) {
        let perm = s.permutation(inner.len());
        inner = perm.into_iter().map(|i| inner[i].clone()).collect();
    }
    let p = Program { nq: 1, body: vec![Goal::Fresh((1..=nh as VarId).collect(), inner)] };
    if std::env::var("PVH_SHOW").is_ok() {
        eprintln!("SHOW {}", p.show());
    }
    let mut info = eval_det(&p, "hidden-fd-witness", None, ctx);
    info.nontrivial = true;
    info
}

fn run_cross(bytes: &[u8], ctx: &Ctx) -> CaseInfo {
    let mut s = Source::new(bytes);
    let (p, kind) = decode(&mut s);
    // only programs that can discriminate are worth two process spawns
    let has_fd = p.body.iter().any(|g| g.any(&|x| matches!(x, Goal::Fd(..))));
    let has_diseq = p.body.iter().any(|g| g.any(&|x| matches!(x, Goal::Diseq(..))));
    if !has_fd && !has_diseq {
        return eval_det(&p, kind, None, ctx);
    }
    eval_det(&p, kind, Some(bytes), ctx)
}

// ---- laziness: take(n) terminates on productive infinite programs -----------------------------

fn run_lazy(bytes: &[u8], ctx: &Ctx) -> CaseInfo {
    let mut s = Source::new(bytes);
    let q = Term::Var(0);
    let n = 1 + s.below(10);
    let marker = s.below(5) as i64;
    let mut next: VarId = 2;
    let producer: Vec<Goal> = match s.below(5) {
        0 => vec![Goal::Always, Goal::Eq(q.clone(), Term::Int(marker))],
        1 => vec![Goal::Anyo(vec![Goal::Call(Rel::Member, vec![q.clone(), Term::ints(&[marker, marker + 1])])])],
        2 => vec![Goal::Call(Rel::Nat, vec![q.clone()])],
        3 => {
            let x = next;
            next += 1;
            vec![Goal::Fresh(vec![x], vec![Goal::Call(Rel::Nat, vec![Term::Var(x)]), Goal::Eq(q.clone(), Term::cons(Term::Int(marker), Term::Var(x)))])]
        }
        _ => vec![Goal::Call(Rel::Append, vec![q.clone(), Term::Var(1), Term::Var(1)]).clone(), Goal::Succeed][1..].to_vec(),
    };
    let _ = next;
    let producer = if producer.len() == 1 && producer[0] == Goal::Succeed { vec![Goal::Anyo(vec![Goal::Eq(q.clone(), Term::Int(marker))])] } else { producer };
    // optionally beside a silent diverger or a finite branch
    let body = match s.below(6) {
        0 => producer,
        1 => vec![Goal::Conde(vec![vec![Goal::Never], producer])],
        2 => vec![Goal::Conde(vec![producer, vec![Goal::Eq(q.clone(), Term::Int(99))]])],
        // beside a depth-first block that searches for ever without an answer: a bare diverger,
        // or a depth-first disjunction whose first / second clause diverges
        3 => vec![Goal::Conde(vec![vec![Goal::Dfs(vec![Goal::Call(Rel::Diverge, vec![])])], producer])],
        4 => vec![Goal::Conde(vec![vec![Goal::Dfs(vec![Goal::Conde(vec![vec![Goal::Call(Rel::Diverge, vec![])], vec![Goal::Eq(q.clone(), Term::Int(98))]])])], producer])],
        _ => vec![Goal::Conde(vec![producer, vec![Goal::Dfs(vec![Goal::Conde(vec![vec![Goal::Eq(q.clone(), Term::Int(98))], vec![Goal::Call(Rel::Diverge, vec![])]])])]])],
    };
    let p = Program { nq: 2, body };
    let mut info = CaseInfo::default();
    let desc = format!("take({}) of {}", n, p.show());
    info.key = hash_str(&desc);
    info.class("laziness");
    info.nontrivial = n >= 2;
    let budget = 40_000 + 4_000 * (n as u64) * (n as u64);
    let o = run::run(&p, Mode::Bfs, Limits::first(n, budget));
    if ctx.want_sample {
        info.sample = Some(json!({ "program": desc, "answers": run::show_answers(&o.answers), "end": format!("{:?}", o.end), "step_budget": budget }));
    }
    match &o.end {
        End::Panic(pi) => info.fail(format!("C09:panic:{}", pi.key()), format!("{}\n  panicked: {} at {}", desc, pi.message, pi.location)),
        End::Budget(st) => {
            // confirm with 10x before reporting
            let o2 = run::run(&p, Mode::Bfs, Limits::first(n, budget * 10));
            if o2.answers.len() < n {
                info.fail("C09:take-n-does-not-terminate", format!("{}\n  only {} of {} answers within {} steps (first try {} steps); the program is productive by construction", desc, o2.answers.len(), n, budget * 10, st));
            }
        }
        End::Exhausted => info.fail("C09:infinite-stream-ended", format!("{}\n  the stream ended after {} answers", desc, o.answers.len())),
        End::Truncated => {}
    }
    info
}

pub fn def() -> PropertyDef {
    PropertyDef {
        id: "C09",
        rule: "determinism: finite programs from three generators (tree programs with up to 8 ==/!= atoms, search programs, FD programs with up to 4 variables incl. hidden ones and up to 6 constraints); the canonical answer sequence (position by position, up to renaming of reified variables and equivalence of constraint sets) must be identical for a second run() of the same Query object, 4 rebuilt runs in the same process (every HashMap/HashSet draws a new RandomState) and, in the cross-process family, 2 child processes (re-exec of the same binary, case passed as bytes). Fusedness: after the first None three more next() calls return None. Laziness: take(n), n<=10, of programs that are productive by construction (always/loop/nat producers, also beside never()) must finish within a step budget (10x confirm run). Non-trivial = >=2 answers and (>=2 constraints in an answer or >=2 FD variables); laziness: n>=2; distinct = hash of the printed program",
        assumptions: vec![
            "hash seeds of other processes cannot be controlled from outside (std RandomState): they are sampled (2 child processes per cross-process case, 4 in-process rebuilds per case), not enumerated",
            "divergence between runs is probabilistic; a violation is a witnessed pair of different sequences",
            "programs containing `project` are not generated here (second run of the same query is C11's finding)",
        ],
        families: vec![
            Family { name: "determinism", max_len: 200, quick: 60_000, thorough: 1_500_000, run: run_det },
            Family { name: "cross-process", max_len: 200, quick: 1_600, thorough: 30_000, run: run_cross },
            Family { name: "laziness", max_len: 32, quick: 20_000, thorough: 300_000, run: run_lazy },
            Family { name: "determinism-scale", max_len: 96, quick: 3_000, thorough: 30_000, run: run_det_scale },
            Family { name: "diseq-chains", max_len: 64, quick: 30_000, thorough: 600_000, run: run_diseq_chains },
            Family { name: "fd-multi-binding", max_len: 64, quick: 60_000, thorough: 400_000, run: run_fd_multi },
            Family { name: "hidden-fd-witness", max_len: 48, quick: 30_000, thorough: 400_000, run: run_hidden_witness },
        ],
        fixed: vec![],
        witnesses: vec![],
        exhaustive: None,
        exhaustive_in_quick: false,
        custom: None,
        custom_replay: None,
    }
}
