//! C09 — query iteration is lazy, fused and deterministic.

use crate::ast::{Goal, Program, Rel, Term, VarId};
use crate::canon::{self, Cmp};
use crate::framework::*;
use crate::gen::fd::{gen_case, FdCfg};
use crate::gen::search::{gen_program as gen_search, SearchCfg};
use crate::gen::tree::{gen_program as gen_tree, TreeCfg};
use crate::run::{self, Answer, End, Limits, Mode, Outcome};
use crate::source::{hash_str, hex, Source};
use serde_json::json;

fn decode(s: &mut Source) -> (Program, &'static str) {
    match s.weighted(&[3, 3, 5]) {
        0 => {
            let mut cfg = TreeCfg::c02();
            cfg.max_atoms = 8;
            (gen_tree(s, &cfg), "tree")
        }
        1 => (gen_search(s, &SearchCfg::dfs()), "search"),
        _ => {
            let mut cfg = FdCfg::full();
            cfg.max_vars = 4;
            cfg.max_constraints = 6;
            let c = gen_case(s, &cfg);
            (c.program(), "fd")
        }
    }
}

fn lim() -> Limits {
    Limits { max_answers: 400, budget: 1_500_000 }
}

fn same_sequence(a: &[Answer], b: &[Answer], u: &canon::Universe) -> Option<usize> {
    if a.len() != b.len() {
        return Some(a.len().min(b.len()));
    }
    for (i, (x, y)) in a.iter().zip(b.iter()).enumerate() {
        if x == y {
            continue;
        }
        if canon::equiv(x, y, u) == Cmp::Different {
            return Some(i);
        }
        // equivalent as sets of ground instances, but the reported constraint *sets* must also
        // agree up to order: a redundant constraint present in one run only is a difference
        if let (Ok(cx), Ok(cy)) = (canon::normal_cons(x), canon::normal_cons(y)) {
            if cx.len() != cy.len() {
                return Some(i);
            }
        }
    }
    None
}

fn ends_agree(a: &Outcome, b: &Outcome) -> bool {
    std::mem::discriminant(&a.end) == std::mem::discriminant(&b.end)
}

pub fn eval_det(p: &Program, kind: &'static str, cross_process: Option<&[u8]>, ctx: &Ctx) -> CaseInfo {
    let mut info = CaseInfo::default();
    let desc = p.show();
    info.key = hash_str(&desc);
    info.class(kind);
    let outs = run::run_same_query(p, Mode::Bfs, lim(), 2);
    let first = &outs[0];
    if ctx.want_sample {
        info.sample = Some(json!({ "program": desc, "answer_sequence": run::show_answers(&first.answers), "runs_compared": if cross_process.is_some() { "same Query twice + 4 rebuilt runs + 2 child processes" } else { "same Query twice + 4 rebuilt runs" } }));
    }
    if let End::Panic(pi) = &first.end {
        info.fail(format!("C09:panic:{}", pi.key()), format!("{}\n  panicked: {} at {}", desc, pi.message, pi.location));
        return info;
    }
    if !first.complete() {
        return CaseInfo { skip: Some("incomplete"), ..info };
    }
    let u = canon::universe(&[p], &[], canon::count_diseqs(p) + 2, 9);
    let ncons: usize = first.answers.iter().map(|a| a.cons.len()).max().unwrap_or(0);
    let nfdvars = {
        let mut vs = vec![];
        for g in &p.body {
            g.visit_terms(&mut |_t| {});
            if g.any(&|x| matches!(x, Goal::Fd(..))) {
                g.visit_vars(&mut |v| {
                    if !vs.contains(&v) {
                        vs.push(v)
                    }
                });
            }
        }
        vs.len()
    };
    info.nontrivial = first.answers.len() >= 2 && (ncons >= 2 || nfdvars >= 2);
    // fused
    for o in &outs {
        if !o.fused {
            info.fail("C09:iterator-not-fused", format!("{}\n  next() returned Some after it had returned None", desc));
            return info;
        }
    }
    // second run of the same Query object
    if outs.len() == 2 {
        let second = &outs[1];
        if let End::Panic(pi) = &second.end {
            info.fail(format!("C09:second-run-panic:{}", pi.key()), format!("{}\n  the second run() of the same Query panicked: {} at {}", desc, pi.message, pi.location));
            return info;
        }
        if !ends_agree(first, second) || same_sequence(&first.answers, &second.answers, &u).is_some() {
            info.fail("C09:second-run-of-same-query-differs", format!("{}\n  first run:  {}\n  second run: {}", desc, run::show_answers(&first.answers), run::show_answers(&second.answers)));
            return info;
        }
    }
    // rebuilt and re-run: every HashMap draws a fresh RandomState, constraint pointers differ
    for i in 0..4 {
        let o = run::run(p, Mode::Bfs, lim());
        if !ends_agree(first, &o) {
            continue;
        }
        if let Some(pos) = same_sequence(&first.answers, &o.answers, &u) {
            info.fail(
                "C09:rerun-differs",
                format!("{}\n  run 1: {}\n  run {}: {}\n  first difference at position {}", desc, run::show_answers(&first.answers), i + 2, run::show_answers(&o.answers), pos),
            );
            return info;
        }
    }
    // other processes (other hash seeds)
    if let Some(bytes) = cross_process {
        info.class("cross-process");
        let exe = std::env::current_exe().ok();
        if let Some(exe) = exe {
            for _ in 0..2 {
                let outp = std::process::Command::new(&exe).arg("worker").arg("C09").arg(hex(bytes)).output();
                let text = match outp {
                    Ok(o) if o.status.success() => String::from_utf8_lossy(&o.stdout).to_string(),
                    _ => return CaseInfo { skip: Some("worker-failed"), ..info },
                };
                let line = text.lines().rev().find(|l| l.starts_with("ANSWERS ")).map(|l| l[8..].to_string());
                let other: Vec<Answer> = match line.and_then(|l| serde_json::from_str(&l).ok()) {
                    Some(v) => v,
                    None => return CaseInfo { skip: Some("worker-output"), ..info },
                };
                if let Some(pos) = same_sequence(&first.answers, &other, &u) {
                    info.fail(
                        "C09:other-process-differs",
                        format!("{}\n  this process:  {}\n  other process: {}\n  first difference at position {}", desc, run::show_answers(&first.answers), run::show_answers(&other), pos),
                    );
                    return info;
                }
            }
        }
    }
    info
}

pub fn worker(bytes: &[u8]) -> String {
    let mut s = Source::new(bytes);
    let (p, _) = decode(&mut s);
    let o = run::run(&p, Mode::Bfs, lim());
    format!("ANSWERS {}", serde_json::to_string(&o.answers).unwrap())
}

fn run_det(bytes: &[u8], ctx: &Ctx) -> CaseInfo {
    let mut s = Source::new(bytes);
    let (p, kind) = decode(&mut s);
    eval_det(&p, kind, None, ctx)
}

fn run_cross(bytes: &[u8], ctx: &Ctx) -> CaseInfo {
    let mut s = Source::new(bytes);
    let (p, kind) = decode(&mut s);
    // only programs that can discriminate are worth two process spawns
    let has_fd = p.body.iter().any(|g| g.any(&|x| matches!(x, Goal::Fd(..))));
    let has_diseq = p.body.iter().any(|g| g.any(&|x| matches!(x, Goal::Diseq(..))));
    if !has_fd && !has_diseq {
        return eval_det(&p, kind, None, ctx);
    }
    eval_det(&p, kind, Some(bytes), ctx)
}

// ---- laziness: take(n) terminates on productive infinite programs -----------------------------

fn run_lazy(bytes: &[u8], ctx: &Ctx) -> CaseInfo {
    let mut s = Source::new(bytes);
    let q = Term::Var(0);
    let n = 1 + s.below(10);
    let marker = s.below(5) as i64;
    let mut next: VarId = 2;
    let producer: Vec<Goal> = match s.below(5) {
        0 => vec![Goal::Always, Goal::Eq(q.clone(), Term::Int(marker))],
        1 => vec![Goal::Anyo(vec![Goal::Call(Rel::Member, vec![q.clone(), Term::ints(&[marker, marker + 1])])])],
        2 => vec![Goal::Call(Rel::Nat, vec![q.clone()])],
        3 => {
            let x = next;
            next += 1;
            vec![Goal::Fresh(vec![x], vec![Goal::Call(Rel::Nat, vec![Term::Var(x)]), Goal::Eq(q.clone(), Term::cons(Term::Int(marker), Term::Var(x)))])]
        }
        _ => vec![Goal::Call(Rel::Append, vec![q.clone(), Term::Var(1), Term::Var(1)]).clone(), Goal::Succeed][1..].to_vec(),
    };
    let _ = next;
    let producer = if producer.len() == 1 && producer[0] == Goal::Succeed { vec![Goal::Anyo(vec![Goal::Eq(q.clone(), Term::Int(marker))])] } else { producer };
    // optionally beside a silent diverger or a finite branch
    let body = match s.below(3) {
        0 => producer,
        1 => vec![Goal::Conde(vec![vec![Goal::Never], producer])],
        _ => vec![Goal::Conde(vec![producer, vec![Goal::Eq(q.clone(), Term::Int(99))]])],
    };
    let p = Program { nq: 2, body };
    let mut info = CaseInfo::default();
    let desc = format!("take({}) of {}", n, p.show());
    info.key = hash_str(&desc);
    info.class("laziness");
    info.nontrivial = n >= 2;
    let budget = 40_000 + 4_000 * (n as u64) * (n as u64);
    let o = run::run(&p, Mode::Bfs, Limits::first(n, budget));
    if ctx.want_sample {
        info.sample = Some(json!({ "program": desc, "answers": run::show_answers(&o.answers), "end": format!("{:?}", o.end), "step_budget": budget }));
    }
    match &o.end {
        End::Panic(pi) => info.fail(format!("C09:panic:{}", pi.key()), format!("{}\n  panicked: {} at {}", desc, pi.message, pi.location)),
        End::Budget(st) => {
            // confirm with 10x before reporting
            let o2 = run::run(&p, Mode::Bfs, Limits::first(n, budget * 10));
            if o2.answers.len() < n {
                info.fail("C09:take-n-does-not-terminate", format!("{}\n  only {} of {} answers within {} steps (first try {} steps); the program is productive by construction", desc, o2.answers.len(), n, budget * 10, st));
            }
        }
        End::Exhausted => info.fail("C09:infinite-stream-ended", format!("{}\n  the stream ended after {} answers", desc, o.answers.len())),
        End::Truncated => {}
    }
    info
}

pub fn def() -> PropertyDef {
    PropertyDef {
        id: "C09",
        rule: "determinism: finite programs from three generators (tree programs with up to 8 ==/!= atoms, search programs, FD programs with up to 4 variables incl. hidden ones and up to 6 constraints); the canonical answer sequence (position by position, up to renaming of reified variables and equivalence of constraint sets) must be identical for a second run() of the same Query object, 4 rebuilt runs in the same process (every HashMap/HashSet draws a new RandomState) and, in the cross-process family, 2 child processes (re-exec of the same binary, case passed as bytes). Fusedness: after the first None three more next() calls return None. Laziness: take(n), n<=10, of programs that are productive by construction (always/loop/nat producers, also beside never()) must finish within a step budget (10x confirm run). Non-trivial = >=2 answers and (>=2 constraints in an answer or >=2 FD variables); laziness: n>=2; distinct = hash of the printed program",
        assumptions: vec![
            "hash seeds of other processes cannot be controlled from outside (std RandomState): they are sampled (2 child processes per cross-process case, 4 in-process rebuilds per case), not enumerated",
            "divergence between runs is probabilistic; a violation is a witnessed pair of different sequences",
            "programs containing `project` are not generated here (second run of the same query is C11's finding)",
        ],
        families: vec![
            Family { name: "determinism", max_len: 200, quick: 60_000, thorough: 1_500_000, run: run_det },
            Family { name: "cross-process", max_len: 200, quick: 1_600, thorough: 30_000, run: run_cross },
            Family { name: "laziness", max_len: 32, quick: 20_000, thorough: 300_000, run: run_lazy },
        ],
        fixed: vec![],
        witnesses: vec![],
        exhaustive: None,
        exhaustive_in_quick: false,
        custom: None,
        custom_replay: None,
    }
}
