//! C24 — library list relations implement their documented relations in every mode.

use crate::ast::{show_term, Goal, Program, Rel, Term, VarId};
use crate::canon::{self, Universe};
use crate::framework::*;
use crate::model::listrel;
use crate::run::{self, Answer, End, Limits, Mode};
use crate::source::{hash_str, Source};
use serde_json::json;
use std::collections::BTreeMap;

pub const FINDING_PERMUTE: &str = "C24-permute-accepts-sublists";

const RELS: [Rel; 10] = [Rel::Member, Rel::Member1, Rel::Append, Rel::Rember, Rel::Permute, Rel::Distinct, Rel::Cons, Rel::First, Rel::Rest, Rel::Empty];

fn elem(s: &mut Source) -> Term {
    // mostly atoms; sometimes a small list (an element that can itself contain variables)
    match s.weighted(&[12, 1, 1]) {
        0 => Term::Int(1 + s.below(3) as i64),
        1 => Term::list(vec![Term::Int(1 + s.below(2) as i64)]),
        _ => Term::list(vec![Term::Int(1 + s.below(2) as i64), Term::Int(1 + s.below(2) as i64)]),
    }
}

fn glist(s: &mut Source, max: usize) -> Vec<Term> {
    let n = s.below(max + 1);
    (0..n).map(|_| elem(s)).collect()
}

/// A ground argument tuple that satisfies the relation (constructed, not searched).
fn solution(s: &mut Source, rel: Rel) -> Vec<Term> {
    match rel {
        Rel::Member | Rel::Member1 => {
            let mut l = glist(s, 3);
            let x = elem(s);
            let pos = s.below(l.len() + 1);
            l.insert(pos, x.clone());
            vec![x, Term::list(l)]
        }
        Rel::Append => {
            let l = glist(s, 3);
            let t = glist(s, 3);
            let mut ls = l.clone();
            ls.extend(t.iter().cloned());
            vec![Term::list(l), Term::list(t), Term::list(ls)]
        }
        Rel::Rember => {
            let ls = glist(s, 4);
            let x = elem(s);
            let mut out = ls.clone();
            if let Some(p) = ls.iter().position(|e| *e == x) {
                out.remove(p);
            }
            vec![x, Term::list(ls), Term::list(out)]
        }
        Rel::Permute => {
            let l = glist(s, 3);
            let perm = s.permutation(l.len());
            let y: Vec<Term> = perm.into_iter().map(|i| l[i].clone()).collect();
            vec![Term::list(l), Term::list(y)]
        }
        Rel::Distinct => {
            // pairwise different elements: atoms and small lists
            let pool = [Term::Int(1), Term::Int(2), Term::Int(3), Term::ints(&[1]), Term::ints(&[2]), Term::ints(&[1, 2])];
            let n = s.below(4);
            let perm = s.permutation(pool.len());
            vec![Term::list(perm.into_iter().take(n).map(|i| pool[i].clone()).collect())]
        }
        Rel::Cons => {
            let f = elem(s);
            let r = glist(s, 3);
            let mut o = vec![f.clone()];
            o.extend(r.iter().cloned());
            vec![f, Term::list(r), Term::list(o)]
        }
        Rel::First => {
            let mut l = glist(s, 3);
            let f = elem(s);
            l.insert(0, f.clone());
            vec![Term::list(l), f]
        }
        Rel::Rest => {
            let r = glist(s, 3);
            let mut l = vec![elem(s)];
            l.extend(r.iter().cloned());
            vec![Term::list(l), Term::list(r)]
        }
        _ => vec![Term::Nil],
    }
}

/// Abstract a ground term into a query pattern; records what each new query variable stood for.
fn abstract_term(s: &mut Source, t: &Term, binds: &mut Vec<Term>, level: u32) -> Term {
    let fresh = |t: &Term, binds: &mut Vec<Term>, s: &mut Source| -> Term {
        // reuse a variable that already stands for the same ground term (sharing) sometimes
        if let Some(i) = binds.iter().position(|b| b == t) {
            if s.flag(128) {
                return Term::Var(i as VarId);
            }
        }
        if binds.len() >= 5 {
            return t.clone();
        }
        binds.push(t.clone());
        Term::Var(binds.len() as VarId - 1)
    };
    match s.weighted(&[5, 3, 3]) {
        0 => t.clone(),
        1 => fresh(t, binds, s),
        _ => match t.as_proper_list() {
            Some(items) if !items.is_empty() && level <= 1 => {
                // partially ground: some elements become variables, maybe the tail too
                let cut = if s.flag(70) && level == 0 { s.below(items.len() + 1) } else { items.len() };
                let mut out = vec![];
                for it in items.iter().take(cut) {
                    if it.as_proper_list().map(|l| !l.is_empty()).unwrap_or(false) && level == 0 && s.flag(128) {
                        // a variable INSIDE an element that is a list
                        out.push(abstract_term(s, it, binds, 1));
                    } else if s.flag(100) {
                        out.push(fresh(it, binds, s));
                    } else {
                        out.push((*it).clone());
                    }
                }
                if cut < items.len() {
                    let rest = Term::list(items[cut..].iter().map(|x| (*x).clone()).collect());
                    let tv = fresh(&rest, binds, s);
                    Term::improper(out, tv)
                } else {
                    Term::list(out)
                }
            }
            _ => t.clone(),
        },
    }
}

fn universe() -> Universe {
    Universe(vec![Term::Int(1), Term::Int(2), Term::Int(9), Term::Nil, Term::ints(&[9, 2])])
}

fn apply(t: &Term, vals: &[Term]) -> Term {
    // query variable i -> vals[i] (which may contain reified variables numbered independently:
    // shift them out of the way by +100 first)
    t.map_vars(&mut |v| vals.get(v as usize).cloned().unwrap_or(Term::Var(v)))
}

fn shift(t: &Term) -> Term {
    t.map_vars(&mut |v| Term::Var(v + 100))
}

/// Is the second list an arrangement of a proper sub-multiset of the first (the permute finding)?
fn is_sub_arrangement(x: &Term, y: &Term) -> bool {
    match (x.as_proper_list(), y.as_proper_list()) {
        (Some(xs), Some(ys)) => {
            if ys.len() >= xs.len() {
                return false;
            }
            let mut pool: Vec<&Term> = xs;
            for e in ys {
                match pool.iter().position(|p| *p == e) {
                    Some(i) => {
                        pool.remove(i);
                    }
                    None => return false,
                }
            }
            true
        }
        _ => false,
    }
}

pub fn eval(rel: Rel, args: &[Term], nq: usize, seed_solution: Option<&[Term]>, ctx: &Ctx) -> CaseInfo {
    eval_with(rel, args, nq, seed_solution, ctx, Limits { max_answers: 30, budget: 12_000 })
}

pub fn eval_with(rel: Rel, args: &[Term], nq: usize, seed_solution: Option<&[Term]>, ctx: &Ctx, lim: Limits) -> CaseInfo {
    let p = Program { nq, body: vec![Goal::Call(rel, args.to_vec())] };
    let mut info = CaseInfo::default();
    let desc = p.show();
    info.key = hash_str(&desc);
    let out = run::run(&p, Mode::Bfs, lim);
    if ctx.want_sample {
        info.sample = Some(json!({ "query": desc, "answers": run::show_answers(&out.answers), "end": format!("{:?}", out.end), "seed_solution": seed_solution.map(|g| g.iter().map(|t| show_term(t, 0)).collect::<Vec<_>>()) }));
    }
    if let End::Panic(pi) = &out.end {
        info.fail(format!("C24:panic:{}", pi.key()), format!("{}\n  panicked: {} at {}", desc, pi.message, pi.location));
        return info;
    }
    let exhausted = out.complete();
    let ground_mode = nq == 0;
    let repeated = args.iter().any(|a| a.as_proper_list().map(|l| { let mut v: Vec<&Term> = l.clone(); v.sort(); v.dedup(); v.len() != l.len() }).unwrap_or(false));
    info.nontrivial = (!ground_mode && out.answers.len() >= 2) || repeated;
    info.class(rel.name());
    info.class(if ground_mode { "mode-all-ground" } else if exhausted { "mode-finite" } else { "mode-infinite-prefix" });
    let u = universe();
    // soundness: every ground instance of every answer (within the relation's domain) satisfies
    // the Vec definition
    for a in &out.answers {
        let vals: Vec<Term> = a.terms.iter().map(shift).collect();
        let inst_args: Vec<Term> = args.iter().map(|t| apply(t, &vals)).collect();
        let shifted = Answer { terms: inst_args.clone(), cons: a.cons.iter().map(|c| c.iter().map(|(x, y)| (shift(x), shift(y))).collect()).collect() };
        // canonical renumbering of the remaining variables to 0..k
        let mut order = vec![];
        for t in &shifted.terms {
            t.vars(&mut order);
        }
        for c in &shifted.cons {
            for (x, y) in c {
                x.vars(&mut order);
                y.vars(&mut order);
            }
        }
        if order.len() > 3 {
            continue;
        }
        let rn = |t: &Term| t.map_vars(&mut |v| Term::Var(order.iter().position(|x| *x == v).unwrap() as VarId));
        let canon_a = Answer { terms: shifted.terms.iter().map(rn).collect(), cons: shifted.cons.iter().map(|c| c.iter().map(|(x, y)| (rn(x), rn(y))).collect()).collect() };
        let k = order.len();
        let sat = match canon::satisfying(&canon_a, k, &u) {
            Some(s) => s,
            None => continue,
        };
        let n = u.0.len();
        for (i, ok) in sat.iter().enumerate() {
            if !*ok {
                continue;
            }
            let mut x = i;
            let mut asg: BTreeMap<VarId, Term> = BTreeMap::new();
            for v in 0..k {
                asg.insert(v as VarId, u.0[x % n].clone());
                x /= n;
            }
            let g: Vec<Term> = canon_a.terms.iter().map(|t| t.map_vars(&mut |v| asg.get(&v).cloned().unwrap_or(Term::Nil))).collect();
            if listrel::holds(rel, &g) == Some(false) {
                let known = rel == Rel::Permute && is_sub_arrangement(&g[0], &g[1]);
                if known && !ctx.strict && finding_is_open(FINDING_PERMUTE) {
                    if !info.known.contains(&FINDING_PERMUTE) {
                        info.known.push(FINDING_PERMUTE);
                    }
                    continue;
                }
                info.fail(
                    format!("C24:{}:answer-not-in-relation", rel.name()),
                    format!("{}\n  answer {} has the ground instance {}({}) which does not satisfy the relation's definition", desc, run::show_answer(a), rel.name(), g.iter().map(|t| show_term(t, 0)).collect::<Vec<_>>().join(", ")),
                );
                return info;
            }
        }
    }
    // ground mode: has an answer <=> the definition holds; documented multiplicities
    if ground_mode && exhausted {
        if let Some(h) = listrel::holds(rel, args) {
            let has = !out.answers.is_empty();
            if has != h {
                let known = rel == Rel::Permute && has && is_sub_arrangement(&args[0], &args[1]);
                if known && !ctx.strict && finding_is_open(FINDING_PERMUTE) {
                    info.known.push(FINDING_PERMUTE);
                } else {
                    info.fail(
                        format!("C24:{}:{}", rel.name(), if has { "succeeds-but-should-fail" } else { "fails-but-should-succeed" }),
                        format!("{}\n  has answer = {}, definition holds = {}", desc, has, h),
                    );
                    return info;
                }
            }
            if let Some(m) = listrel::ground_multiplicity(rel, args) {
                if out.answers.len() != m {
                    info.fail(format!("C24:{}:multiplicity", rel.name()), format!("{}\n  {} answers, documented {}", desc, out.answers.len(), m));
                    return info;
                }
            }
        }
    }
    // completeness w.r.t. the seed solution: it must be an instance of some answer
    if let (Some(seed), true) = (seed_solution, exhausted) {
        let mut covered = nq == 0 && !out.answers.is_empty();
        if nq > 0 {
            for a in &out.answers {
                if canon::instance_of(seed, a, &u) == Some(true) {
                    covered = true;
                    break;
                }
            }
        }
        if !covered {
            info.fail(
                format!("C24:{}:solution-missing", rel.name()),
                format!("{}\n  the solution with query variables = ({}) is not covered by any answer: {}", desc, seed.iter().map(|t| show_term(t, 0)).collect::<Vec<_>>().join(", "), run::show_answers(&out.answers)),
            );
            return info;
        }
    }
    // member / member1 with a ground list and a fresh element: exact answer sequences
    if exhausted && nq == 1 && args[0] == Term::Var(0) && matches!(rel, Rel::Member | Rel::Member1) && args[1].is_ground() {
        if let Some(items) = args[1].as_proper_list() {
            let mut got: Vec<Term> = out.answers.iter().map(|a| a.terms[0].clone()).collect();
            let mut want: Vec<Term> = items.iter().map(|t| (*t).clone()).collect();
            if rel == Rel::Member1 {
                let mut seen = vec![];
                want.retain(|t| {
                    if seen.contains(t) {
                        false
                    } else {
                        seen.push(t.clone());
                        true
                    }
                });
            }
            got.sort();
            want.sort();
            if got != want {
                info.fail(format!("C24:{}:multiplicity", rel.name()), format!("{}\n  answers {} but documented one answer per {}", desc, run::show_answers(&out.answers), if rel == Rel::Member { "matching position" } else { "distinct matching value" }));
                return info;
            }
            info.class("exact-multiplicity-checked");
        }
    }
    info
}

fn run_family(bytes: &[u8], ctx: &Ctx) -> CaseInfo {
    let mut s = Source::new(bytes);
    let rel = RELS[s.below(RELS.len())];
    let mut g = solution(&mut s, rel);
    // negative seeds: perturb one argument
    let perturbed = s.flag(70);
    if perturbed {
        let i = s.below(g.len());
        g[i] = match s.below(3) {
            0 => elem(&mut s),
            1 => Term::list(glist(&mut s, 3)),
            _ => match g[i].as_proper_list() {
                Some(items) if !items.is_empty() => {
                    let mut v: Vec<Term> = items.iter().map(|t| (*t).clone()).collect();
                    let k = s.below(v.len());
                    v[k] = elem(&mut s);
                    Term::list(v)
                }
                _ => elem(&mut s),
            },
        };
    }
    let is_solution = listrel::holds(rel, &g) == Some(true);
    let mut binds: Vec<Term> = vec![];
    let args: Vec<Term> = g.iter().map(|t| abstract_term(&mut s, t, &mut binds, 0)).collect();
    let nq = binds.len();
    let seed = if is_solution { Some(binds.clone()) } else { None };
    eval(rel, &args, nq, seed.as_deref(), ctx)
}

/// Long lists (up to 150, thorough 600 elements): ground mode, one argument fresh, or one
/// element of a list replaced by a variable.
fn run_long(bytes: &[u8], ctx: &Ctx) -> CaseInfo {
    use crate::gen::scale;
    const LONG: [Rel; 8] = [Rel::Member, Rel::Member1, Rel::Append, Rel::Rember, Rel::Distinct, Rel::Cons, Rel::First, Rel::Rest];
    let mut s = Source::new(bytes);
    let rel = LONG[s.below(LONG.len())];
    let n = scale::size(&mut s, if ctx.tier == Tier::Thorough { 600 } else { 150 });
    // the library's distinct takes seconds beyond a dozen elements
    let n = if rel == Rel::Distinct { n.min(10) } else { n };
    let mode = s.weighted(&[4, 4, 2, 2]);
    let perturb = s.weighted(&[5, 2, 2]);
    let (a, b) = (1 + s.below(5), s.below(3));
    let pos = s.below(n);
    let pos2 = s.below(n);
    let cut = s.below(n + 1);
    let which_arg = s.below(3);
    let x = Term::Int(1 + s.below(3) as i64);
    // element table: a residue pattern over {1, 2, 3}; for distinct: pairwise different
    let mut el: Vec<Term> = if rel == Rel::Distinct { (0..n).map(|i| Term::Int(10 + ((i * 7 + b) % n.max(1)) as i64 + (i / n.max(1)) as i64 * 1000)).collect::<Vec<Term>>() } else { (0..n).map(|i| Term::Int(1 + ((i * a + b) % 3) as i64)).collect() };
    if rel == Rel::Distinct {
        // i*7 mod n is a permutation only if gcd(7, n) == 1; otherwise fall back to 10 + i
        let mut seen = std::collections::BTreeSet::new();
        if !el.iter().all(|t| seen.insert(t.clone())) {
            el = (0..n).map(|i| Term::Int(10 + i as i64)).collect();
        }
    }
    if rel == Rel::Distinct {
        // some elements come from the universe the soundness check instantiates variables with
        for (i, v) in [1i64, 2, 9].iter().enumerate() {
            if i < el.len() {
                el[i] = Term::Int(*v);
            }
        }
    }
    let mut g: Vec<Term> = match rel {
        Rel::Member | Rel::Member1 => {
            let mut l = el.clone();
            l[pos] = x.clone();
            vec![x.clone(), Term::list(l)]
        }
        Rel::Append => vec![Term::list(el[..cut].to_vec()), Term::list(el[cut..].to_vec()), Term::list(el.clone())],
        Rel::Rember => {
            let mut out = el.clone();
            if let Some(p) = el.iter().position(|e| *e == x) {
                out.remove(p);
            }
            vec![x.clone(), Term::list(el.clone()), Term::list(out)]
        }
        Rel::Distinct => vec![Term::list(el.clone())],
        Rel::Cons => {
            let mut o = vec![x.clone()];
            o.extend(el.iter().cloned());
            vec![x.clone(), Term::list(el.clone()), Term::list(o)]
        }
        Rel::First => vec![Term::list(el.clone()), el[0].clone()],
        _ => vec![Term::list(el.clone()), Term::list(el[1..].to_vec())],
    };
    // negative seeds: change one element (often the last one) or drop the last element
    if perturb > 0 {
        let i = which_arg % g.len();
        if let Some(items) = g[i].as_proper_list() {
            let mut v: Vec<Term> = items.iter().map(|t| (*t).clone()).collect();
            if !v.is_empty() {
                if perturb == 1 {
                    let k = if pos2 % 2 == 0 { v.len() - 1 } else { pos2 % v.len() };
                    v[k] = if rel == Rel::Distinct { v[(k + 1) % v.len()].clone() } else { Term::Int(9) };
                } else {
                    v.pop();
                }
                g[i] = Term::list(v);
            }
        } else {
            g[i] = Term::Int(9);
        }
    }
    let is_solution = listrel::holds(rel, &g) == Some(true);
    let mut binds: Vec<Term> = vec![];
    let args: Vec<Term> = match mode {
        0 => g.clone(),
        1 => {
            // one whole argument becomes a fresh query variable - but only if a long ground list
            // remains among the others (otherwise nothing about the case is long any more, and
            // the relation may enumerate for ever)
            let len_of = |t: &Term| t.as_proper_list().map(|l| l.len()).unwrap_or(0);
            let candidates: Vec<usize> = (0..g.len()).filter(|i| g.iter().enumerate().any(|(j, t)| j != *i && len_of(t) * 2 >= n.max(2))).collect();
            if candidates.is_empty() {
                g.clone()
            } else {
                let i = candidates[which_arg % candidates.len()];
                g.iter().enumerate().map(|(j, t)| if j == i { binds.push(t.clone()); Term::Var(0) } else { t.clone() }).collect()
            }
        }
        3 => {
            // a list argument is known only up to some cell: its tail is a variable
            let i = which_arg % g.len();
            g.iter()
                .enumerate()
                .map(|(j, t)| match (j == i, t.as_proper_list()) {
                    (true, Some(items)) if !items.is_empty() => {
                        let v: Vec<Term> = items.iter().map(|t| (*t).clone()).collect();
                        let k = if pos2 % 3 == 0 { v.len() } else { 1 + pos2 % v.len() };
                        binds.push(Term::list(v[k..].to_vec()));
                        Term::improper(v[..k].to_vec(), Term::Var(0))
                    }
                    _ => t.clone(),
                })
                .collect()
        }
        _ => {
            // one element of a list argument becomes a variable
            let i = which_arg % g.len();
            g.iter()
                .enumerate()
                .map(|(j, t)| match (j == i, t.as_proper_list()) {
                    (true, Some(items)) if !items.is_empty() => {
                        let mut v: Vec<Term> = items.iter().map(|t| (*t).clone()).collect();
                        let k = pos2 % v.len();
                        binds.push(v[k].clone());
                        v[k] = Term::Var(0);
                        Term::list(v)
                    }
                    _ => t.clone(),
                })
                .collect()
        }
    };
    let nq = binds.len();
    let seed = if is_solution { Some(binds.clone()) } else { None };
    if std::env::var("PVH_SHOW").is_ok() {
        eprintln!("SHOW {} n={} mode={} {}", rel.name(), n, mode, Program { nq, body: vec![Goal::Call(rel, args.clone())] }.show().chars().take(200).collect::<String>());
    }
    // ground mode is always finite; with a fresh argument the relation may enumerate for ever
    let lim = if nq == 0 { Limits { max_answers: 2000, budget: 2_000_000 } } else if mode == 3 { Limits { max_answers: 40, budget: 400_000 } } else { Limits { max_answers: 700, budget: 400_000 } };
    let t0 = std::time::Instant::now();
    let mut info = eval_with(rel, &args, nq, seed.as_deref(), ctx, lim);
    if std::env::var("PVH_SLOW").is_ok() && t0.elapsed().as_millis() > 1000 {
        eprintln!("SLOW {:?} {} n={} mode={} {}", t0.elapsed(), rel.name(), n, mode, Program { nq, body: vec![Goal::Call(rel, args.clone())] }.show().chars().take(120).collect::<String>());
    }
    truncate_sample(&mut info, 300);
    info.class(if n >= 256 { "length>=256" } else if n >= 64 { "length>=64" } else if n >= 16 { "length>=16" } else { "length<16" });
    info
}

fn witness_permute() -> Option<String> {
    let strict = Ctx { tier: Tier::Quick, strict: true, want_sample: false };
    let i = eval(Rel::Permute, &[Term::ints(&[1, 2]), Term::Var(0)], 1, None, &strict);
    i.failure.map(|_| "permute([1, 2], q) also yields [], [1] and [2] (rember leaves the list unchanged when the element is absent), and permute([1, 2], [1]) succeeds; test_permute_1 pins exactly these five answers, so the relation cannot be repaired with the suite unedited".to_string())
}

/// Exhaustive: ground mode over lists up to length 3 over {1,2}, every relation.
fn exhaustive(ctx: &Ctx, emit: Emit) -> String {
    let quiet = Ctx { want_sample: false, ..*ctx };
    let mut lists: Vec<Term> = vec![Term::Nil];
    for n in 1..=3usize {
        for m in 0..(1 << n) {
            lists.push(Term::list((0..n).map(|i| Term::Int(1 + ((m >> i) & 1) as i64)).collect()));
        }
    }
    let elems = [Term::Int(1), Term::Int(2)];
    for rel in RELS {
        match rel {
            Rel::Member | Rel::Member1 => {
                for x in &elems {
                    for l in &lists {
                        emit(eval(rel, &[x.clone(), l.clone()], 0, None, &quiet));
                    }
                }
            }
            Rel::First => {
                for l in &lists {
                    for x in &elems {
                        emit(eval(rel, &[l.clone(), x.clone()], 0, None, &quiet));
                    }
                }
            }
            Rel::Append => {
                for a in &lists {
                    for b in &lists {
                        if let (Some(x), Some(y)) = (a.as_proper_list(), b.as_proper_list()) {
                            if x.len() + y.len() > 4 {
                                continue;
                            }
                        }
                        for c in &lists {
                            emit(eval(rel, &[a.clone(), b.clone(), c.clone()], 0, None, &quiet));
                        }
                    }
                }
            }
            Rel::Rember | Rel::Cons => {
                for x in &elems {
                    for a in &lists {
                        for b in &lists {
                            emit(eval(rel, &[x.clone(), a.clone(), b.clone()], 0, None, &quiet));
                        }
                    }
                }
            }
            Rel::Permute | Rel::Rest => {
                for a in &lists {
                    for b in &lists {
                        emit(eval(rel, &[a.clone(), b.clone()], 0, None, &quiet));
                    }
                }
            }
            _ => {
                for a in &lists {
                    emit(eval(rel, &[a.clone()], 0, None, &quiet));
                }
            }
        }
    }
    // every mode with one argument fresh, the others ground
    for rel in RELS {
        if rel.arity() < 2 {
            continue;
        }
        for a in &lists {
            for b in lists.iter().take(7) {
                for hole in 0..rel.arity() {
                    let pool: Vec<Term> = match rel.arity() {
                        2 => vec![a.clone(), b.clone()],
                        _ => vec![elems[0].clone(), a.clone(), b.clone()],
                    };
                    let mut args = pool.clone();
                    if matches!(rel, Rel::Member | Rel::Member1) {
                        args = vec![elems[1].clone(), a.clone()];
                    }
                    if rel == Rel::First {
                        args = vec![a.clone(), elems[0].clone()];
                    }
                    if rel == Rel::Append {
                        args = vec![a.clone(), b.clone(), Term::Nil];
                    }
                    if hole >= args.len() {
                        continue;
                    }
                    args[hole] = Term::Var(0);
                    // skip modes with infinitely many answers (no bounding ground spine)
                    let finite = match rel {
                        Rel::Member | Rel::Member1 => hole == 0,
                        Rel::Append => hole != 2 || true,
                        Rel::Permute => hole == 1,
                        _ => true,
                    };
                    if !finite {
                        continue;
                    }
                    emit(eval(rel, &args, 1, None, &quiet));
                }
            }
        }
    }
    "ground mode: every relation on all argument tuples over lists of length <= 3 over {1,2} (append restricted to |l|+|s| <= 4); plus every mode with exactly one fresh argument over the same lists (soundness of all answers, multiplicities of member/member1)".to_string()
}

pub fn def() -> PropertyDef {
    PropertyDef {
        id: "C24",
        rule: "solution-first generation: a ground argument tuple satisfying the relation is constructed for one of the ten relations (lists of length <= 4 over {1,2,3}, repeated elements frequent), perturbed with weight 0.27 (negative seeds), then abstracted into a query: each argument stays ground, becomes a fresh query variable, or becomes partially ground (some elements -> variables, sometimes shared, tail -> variable). Oracle (Vec definitions in model/listrel.rs): every ground instance of every answer over a 5-element universe satisfies the definition; ground mode: has an answer <=> definition holds, member yields one answer per matching position, member1 exactly one; finite modes (search exhausted): the seed solution is covered by some answer; member/member1 with a ground list and fresh element yield exactly the documented answer multisets; infinite modes: the first 30 answers are sound. Non-trivial = a non-ground mode with >=2 answers, or repeated elements; distinct = hash of the printed query",
        assumptions: vec!["list arguments are proper lists (instances outside that domain are not judged)", "completeness is asserted only when the search was exhausted within the step budget"],
        families: vec![
            Family { name: "relations", max_len: 96, quick: 120_000, thorough: 2_500_000, run: run_family },
            Family { name: "long-lists", max_len: 32, quick: 20_000, thorough: 200_000, run: run_long },
        ],
        fixed: vec![],
        witnesses: vec![Witness { finding: FINDING_PERMUTE, run: witness_permute }],
        exhaustive: Some(exhaustive),
        exhaustive_in_quick: false,
        custom: None,
        custom_replay: None,
    }
}
