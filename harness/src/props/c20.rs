//! C20 — compound terms unify, constrain, reify and label structurally.

use crate::ast::{Goal, Kind, Program, Term};
use crate::canon;
use crate::framework::*;
use crate::gen::fd::{gen_case, FdCfg, QueryShape};
use crate::gen::terms::{gen_term, mutate, TermCfg};
use crate::oracle::{self, RefResult, Verdict};
use crate::run::{self, Answer, End, Limits, Mode};
use crate::source::{hash_str, Source};
use serde_json::json;

/// Faithful first-order encoding: every constructor becomes a proper list with a ground tag
/// in head position (lists too, so that a list with variable elements can never unify with
/// an encoded compound).
pub fn enc(t: &Term) -> Term {
    match t {
        Term::Nil => Term::Str("#nil".into()),
        Term::Cons(h, tl) => Term::list(vec![Term::Str("#cons".into()), enc(h), enc(tl)]),
        Term::Cmp(k, a) => {
            let tag = match k {
                Kind::Tuple => "#tuple".to_string(),
                k => format!("#{}", k.name()),
            };
            let mut v = vec![Term::Str(tag)];
            v.extend(a.iter().map(enc));
            Term::list(v)
        }
        t => t.clone(),
    }
}

fn enc_goal(g: &Goal) -> Goal {
    let eg = |gs: &Vec<Goal>| gs.iter().map(enc_goal).collect::<Vec<_>>();
    match g {
        Goal::Eq(a, b) => Goal::Eq(enc(a), enc(b)),
        Goal::Diseq(a, b) => Goal::Diseq(enc(a), enc(b)),
        Goal::Conj(gs) => Goal::Conj(eg(gs)),
        Goal::Fresh(v, gs) => Goal::Fresh(v.clone(), eg(gs)),
        Goal::Conde(c) => Goal::Conde(c.iter().map(eg).collect()),
        // FD goals take variables, integers and (for domains / distinctfd) plain lists of them
        g => g.clone(),
    }
}

fn enc_answer(a: &Answer) -> Answer {
    let mut cons: Vec<Vec<(Term, Term)>> = a.cons.iter().map(|c| { let mut p: Vec<(Term, Term)> = c.iter().map(|(x, y)| (enc(x), enc(y))).collect(); p.sort(); p }).collect();
    cons.sort();
    Answer { terms: a.terms.iter().map(enc).collect(), cons }
}

pub fn eval(p: &Program, with_reference: bool, ctx: &Ctx) -> CaseInfo {
    let twin = Program { nq: p.nq, body: p.body.iter().map(enc_goal).collect() };
    let mut info = CaseInfo::default();
    let desc = p.show();
    info.key = hash_str(&desc);
    let lim = Limits { max_answers: 3000, budget: 2_000_000 };
    let op = run::run(p, Mode::Bfs, lim);
    let ot = run::run(&twin, Mode::Bfs, lim);
    if ctx.want_sample {
        info.sample = Some(json!({ "program": desc, "answers": run::show_answers(&op.answers), "list_encoded_twin": twin.show(), "twin_answers": run::show_answers(&ot.answers) }));
    }
    for (o, q) in [(&op, p), (&ot, &twin)] {
        match &o.end {
            End::Panic(pi) => {
                info.fail(format!("C20:panic:{}", pi.key()), format!("{}\n  panicked: {} at {}", q.show(), pi.message, pi.location));
                return info;
            }
            End::Exhausted => {}
            _ => return CaseInfo { skip: Some("incomplete"), ..info },
        }
    }
    // classes
    let mut kinds: Vec<Kind> = vec![];
    let mut cmp_meets_list = false;
    for g in &p.body {
        g.visit_terms(&mut |t| collect_kinds(t, &mut kinds));
        g.any(&|x| {
            if let Goal::Eq(a, b) | Goal::Diseq(a, b) = x {
                if (matches!(a, Term::Cmp(..)) && matches!(b, Term::Cons(..) | Term::Nil | Term::Int(_))) || (matches!(b, Term::Cmp(..)) && matches!(a, Term::Cons(..) | Term::Nil | Term::Int(_))) {
                    return true;
                }
            }
            false
        });
    }
    for g in &p.body {
        if g.any(&|x| matches!(x, Goal::Eq(a, b) | Goal::Diseq(a, b) if (matches!(a, Term::Cmp(..)) != matches!(b, Term::Cmp(..))) && !a.is_var() && !b.is_var())) {
            cmp_meets_list = true;
        }
    }
    let var_in_cmp_answer = op.answers.iter().any(|a| a.terms.iter().any(|t| t.has_compound() && !t.is_ground()));
    info.nontrivial = kinds.len() >= 2 || cmp_meets_list || var_in_cmp_answer;
    if kinds.len() >= 2 {
        info.class("two-compound-kinds");
    }
    if cmp_meets_list {
        info.class("compound-meets-list-or-literal");
    }
    if var_in_cmp_answer {
        info.class("variable-inside-compound-in-answer");
    }
    if kinds.contains(&Kind::Node) {
        info.class("recursive-typed-compound");
    }
    if kinds.contains(&Kind::Rec) {
        info.class("named-compound");
    }
    if kinds.contains(&Kind::Tuple) {
        info.class("rust-tuple");
    }
    if p.body.iter().any(|g| g.any(&|x| matches!(x, Goal::Fd(..)))) {
        info.class("fd-labeling-inside-compound");
    }
    let encoded: Vec<Answer> = op.answers.iter().map(enc_answer).collect();
    let u = canon::universe(&[&twin], &[], canon::count_diseqs(p) + 2, 9);
    match canon::multiset_cmp(&encoded, &ot.answers, &u) {
        Ok(None) => {}
        Err(()) => return CaseInfo { skip: Some("too-big"), ..info },
        Ok(Some(d)) => {
            info.fail(
                "C20:compound-program-differs-from-list-encoded-twin",
                format!(
                    "{}\n  answers {}\n  twin: {}\n  twin answers {}\n  only compound program (encoded): {}\n  only twin: {}",
                    desc,
                    run::show_answers(&op.answers),
                    twin.show(),
                    run::show_answers(&ot.answers),
                    run::show_answers(&d.only_left),
                    run::show_answers(&d.only_right)
                ),
            );
            return info;
        }
    }
    if with_reference {
        if let RefResult::Answers(r) = oracle::reference_answers(p) {
            let u2 = canon::universe(&[p], &[], canon::count_diseqs(p) + 2, 9);
            if let Verdict::Fail(sig, detail) = oracle::compare_with_reference("C20", p, &op, &r, &u2) {
                info.fail(sig, detail);
            }
        }
    }
    info
}

fn collect_kinds(t: &Term, out: &mut Vec<Kind>) {
    match t {
        Term::Cmp(k, a) => {
            if !out.contains(k) {
                out.push(*k);
            }
            a.iter().for_each(|x| collect_kinds(x, out));
        }
        Term::Cons(h, tl) => {
            collect_kinds(h, out);
            collect_kinds(tl, out);
        }
        _ => {}
    }
}

fn run_tree(bytes: &[u8], ctx: &Ctx) -> CaseInfo {
    let mut s = Source::new(bytes);
    let nq = 1 + s.below(3);
    let vars: Vec<u32> = (0..(nq + 1) as u32).collect();
    let mut cfg = TermCfg::all_literals(vars.clone());
    cfg.atoms = vec![Term::Int(0), Term::Int(1), Term::Bool(true), Term::Str("s".into())];
    cfg.w = [4, 6, 1, 3, 6];
    cfg.max_depth = 2;
    cfg.kinds.push(Kind::Wrap);
    cfg.kinds.push(Kind::Wrap);
    // a second type with the same identifier and shape as Pair, from another module
    cfg.kinds.push(Kind::Pair2);
    let n = 1 + s.below(5);
    let mut goals = vec![];
    for _ in 0..n {
        let a = if s.flag(120) { Term::Var(vars[s.below(vars.len())]) } else { gen_term(&mut s, &cfg, 0) };
        let b = if s.flag(110) { mutate(&mut s, &cfg, &a) } else { gen_term(&mut s, &cfg, 0) };
        // an Option field switched between None and Some(..) is the interesting near miss
        let b = match (&b, s.flag(60)) {
            (Term::Cmp(Kind::Wrap, w), true) => {
                let flipped = if w[1] == Term::Nil { Term::Cmp(Kind::Pair, vec![Term::Int(0), Term::Var(vars[0])]) } else { Term::Nil };
                Term::Cmp(Kind::Wrap, vec![w[0].clone(), flipped])
            }
            _ => b,
        };
        let (a, b) = (a.sanitize_wrap(), b.sanitize_wrap());
        let g = if s.flag(90) { Goal::Diseq(a, b) } else { Goal::Eq(a, b) };
        if s.flag(40) {
            let c = gen_term(&mut s, &cfg, 0).sanitize_wrap();
            goals.push(Goal::Conde(vec![vec![g], vec![Goal::Eq(Term::Var(vars[s.below(vars.len())]), c)]]));
        } else {
            goals.push(g);
        }
    }
    let hidden = vars[nq];
    let p = Program { nq, body: vec![Goal::Fresh(vec![hidden], goals)] };
    eval(&p, true, ctx)
}

fn run_fd(bytes: &[u8], ctx: &Ctx) -> CaseInfo {
    let mut s = Source::new(bytes);
    let cfg = FdCfg::full();
    let mut c = gen_case(&mut s, &cfg);
    // force a compound query term
    if c.shape != QueryShape::Compound {
        let k = [Kind::Pair, Kind::Triple, Kind::Rec, Kind::Tuple][s.below(4)];
        let nv = c.nvars;
        let mut arg = |s: &mut Source| -> Term {
            let v = Term::Var(s.below(nv) as u32);
            match s.below(4) {
                0 => Term::list(vec![v]),
                1 => Term::Cmp(Kind::Pair, vec![v, Term::Int(1)]),
                _ => v,
            }
        };
        let args: Vec<Term> = (0..k.arity()).map(|_| arg(&mut s)).collect();
        c.shape = QueryShape::Compound;
        c.shape_term = Some(Term::Cmp(k, args));
    }
    let p = c.program();
    eval(&p, false, ctx)
}

fn fixed_spot(ctx: &Ctx) -> CaseInfo {
    // Pair(1,2) vs [1,2], Duo(1,2), (1,2), Triple; occurs check through a compound
    let q = Term::Var(0);
    let pair = |a: Term, b: Term| Term::Cmp(Kind::Pair, vec![a, b]);
    let body = vec![Goal::Conde(vec![
        vec![Goal::Eq(pair(Term::Int(1), Term::Int(2)), Term::ints(&[1, 2])), Goal::Eq(q.clone(), Term::Int(1))],
        vec![Goal::Eq(pair(Term::Int(1), Term::Int(2)), Term::Cmp(Kind::Duo, vec![Term::Int(1), Term::Int(2)])), Goal::Eq(q.clone(), Term::Int(2))],
        vec![Goal::Eq(pair(Term::Int(1), Term::Int(2)), Term::Cmp(Kind::Tuple, vec![Term::Int(1), Term::Int(2)])), Goal::Eq(q.clone(), Term::Int(3))],
        vec![Goal::Eq(pair(Term::Var(1), Term::Int(2)), pair(Term::Int(1), Term::Var(2))), Goal::Eq(q.clone(), Term::list(vec![Term::Var(1), Term::Var(2)]))],
        vec![Goal::Eq(q.clone(), pair(q.clone(), Term::Int(1)))],
        vec![Goal::Diseq(pair(Term::Var(1), Term::Int(1)), pair(Term::Int(2), Term::Var(2))), Goal::Eq(q.clone(), pair(Term::Var(1), Term::Var(2)))],
    ])];
    eval(&Program { nq: 1, body: vec![Goal::Fresh(vec![1, 2], body)] }, true, ctx)
}

pub fn run_tree_pub(bytes: &[u8], ctx: &Ctx) -> CaseInfo {
    run_tree(bytes, ctx)
}

pub fn def() -> PropertyDef {
    PropertyDef {
        id: "C20",
        rule: "tree family: 1-5 ==/!= goals (some inside conde) over terms mixing Pair, Duo (same shape, other type), Triple, Rec (named fields), Node (recursive, typed fields holding variables/[]/nodes), Rust 2-tuples, lists and literals, the second side often a mutation of the first (tag/arity changed, children swapped, variable buried for the occurs check); FD family: CLP(FD) programs whose query term is a compound (also nested in lists / compounds) of FD variables. Oracle (metamorphic + reference): the twin program in which every constructor is encoded as a tagged proper list must have the same answer multiset as the compound program's answers under the same encoding; the tree family also equals the reference interpreter (native compound unification). Non-trivial = two compound kinds, or a compound meets a list/literal in one (dis)equality, or an answer has a variable inside a compound; distinct = hash of the printed program",
        assumptions: vec!["Option<T> compounds are not generated (Some(x) converts to x's own compound term and None to [], so at term level they add no new constructor)", "reference interpreter correct"],
        families: vec![
            Family { name: "tree-compound", max_len: 200, quick: 120_000, thorough: 3_000_000, run: run_tree },
            Family { name: "fd-compound", max_len: 160, quick: 80_000, thorough: 2_000_000, run: run_fd },
        ],
        fixed: vec![Fixed { name: "spot-checks", run: fixed_spot }],
        witnesses: vec![],
        exhaustive: None,
        exhaustive_in_quick: false,
        custom: None,
        custom_replay: None,
    }
}
