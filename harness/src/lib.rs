//! pvh — property-based verification harness for proto-vulcan.
pub mod framework;
pub mod guard;
pub mod props;
pub mod source;
