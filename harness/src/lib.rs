//! pvh — property-based verification harness for proto-vulcan.
pub mod ast;
pub mod build;
pub mod canon;
pub mod crash;
pub mod emit;
pub mod framework;
pub mod fuzz;
pub mod gen;
pub mod guard;
pub mod model;
pub mod oracle;
pub mod pipeline;
pub mod props;
pub mod run;
pub mod source;
