//! Panic capture and step budget.
//!
//! `install()` replaces the global panic hook by a silent one that records message and
//! source location in a thread-local. `guarded(budget, f)` runs `f` under `catch_unwind`
//! with the engine step budget armed and classifies the outcome.

use std::cell::RefCell;
use std::panic::{self, AssertUnwindSafe};

thread_local! {
    static LAST_PANIC: RefCell<Option<(String, String)>> = RefCell::new(None);
    static LAST_STEPS: std::cell::Cell<u64> = std::cell::Cell::new(0);
    /// true while a guarded closure runs on this thread (its panics are expected and reported
    /// through the return value)
    static IN_GUARD: std::cell::Cell<bool> = std::cell::Cell::new(false);
}

/// engine steps consumed by the most recent `guarded` call on this thread
pub fn last_steps() -> u64 {
    LAST_STEPS.with(|s| s.get())
}

pub fn install() {
    panic::set_hook(Box::new(|info| {
        let msg = if let Some(s) = info.payload().downcast_ref::<&str>() {
            s.to_string()
        } else if let Some(s) = info.payload().downcast_ref::<String>() {
            s.clone()
        } else if info
            .payload()
            .downcast_ref::<proto_vulcan::verif_hooks::StepBudgetExhausted>()
            .is_some()
        {
            "step budget exhausted".to_string()
        } else {
            "<non-string panic payload>".to_string()
        };
        let loc = info
            .location()
            .map(|l| format!("{}:{}", l.file(), l.line()))
            .unwrap_or_else(|| "<unknown>".to_string());
        if (std::thread::current().name() == Some("main") && msg != "step budget exhausted" && !IN_GUARD.with(|g| g.get())) || std::env::var("PVH_PANIC_VERBOSE").is_ok() {
            // panics on the main thread are harness bugs (cases run on guarded worker threads)
            eprintln!("harness panic: {} at {}", msg, loc);
        }
        LAST_PANIC.with(|p| *p.borrow_mut() = Some((msg, loc)));
    }));
}

#[derive(Clone, Debug, PartialEq, Eq)]
pub struct PanicInfo {
    pub message: String,
    pub location: String,
}

impl PanicInfo {
    /// Stable key: message without volatile parts + file (no line shifts inside /repo are
    /// tolerated on purpose: the line is part of the key only through the file name).
    pub fn key(&self) -> String {
        let mut m = self.message.clone();
        if m.len() > 80 {
            let mut cut = 80;
            while !m.is_char_boundary(cut) {
                cut -= 1;
            }
            m.truncate(cut);
        }
        let file = self.location.split(':').next().unwrap_or("");
        let file = file.rsplit("/repo/").next().unwrap_or(file);
        format!("{} @ {}", m, file)
    }
}

#[derive(Debug)]
pub enum Guarded<T> {
    Ok(T),
    /// The engine step budget was exhausted after this many steps.
    Budget(u64),
    Panic(PanicInfo),
}

pub fn guarded<T>(budget: u64, f: impl FnOnce() -> T) -> Guarded<T> {
    proto_vulcan::verif_hooks::reset(budget);
    LAST_PANIC.with(|p| *p.borrow_mut() = None);
    IN_GUARD.with(|g| g.set(true));
    let r = panic::catch_unwind(AssertUnwindSafe(f));
    IN_GUARD.with(|g| g.set(false));
    // disarm
    let steps = proto_vulcan::verif_hooks::steps();
    LAST_STEPS.with(|s| s.set(steps));
    proto_vulcan::verif_hooks::reset(u64::MAX);
    match r {
        Ok(v) => Guarded::Ok(v),
        Err(payload) => {
            if payload
                .downcast_ref::<proto_vulcan::verif_hooks::StepBudgetExhausted>()
                .is_some()
            {
                Guarded::Budget(steps)
            } else {
                let (message, location) = LAST_PANIC
                    .with(|p| p.borrow_mut().take())
                    .unwrap_or_else(|| ("<unknown panic>".into(), "<unknown>".into()));
                Guarded::Panic(PanicInfo { message, location })
            }
        }
    }
}

pub fn steps() -> u64 {
    proto_vulcan::verif_hooks::steps()
}
