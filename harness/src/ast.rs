//! One AST for every generated program: terms, goals, programs, and a surface-syntax printer.

use std::fmt::Write;

pub type VarId = u32;

/// Variable ids from here on denote anonymous `_` variables of the program (`LTerm::any()`):
/// each id occurs once; for the reference model they are ordinary distinct variables.
pub const WILD_BASE: VarId = 2_000_000;

#[derive(Clone, Copy, PartialEq, Eq, Hash, PartialOrd, Ord, Debug, serde::Serialize, serde::Deserialize)]
pub enum Kind {
    Pair,   // #[compound] struct Pair(LTerm, LTerm)
    Duo,    // #[compound] struct Duo(LTerm, LTerm)   -- same shape, other type
    Triple, // #[compound] struct Triple(LTerm, LTerm, LTerm)
    Rec,    // #[compound] struct Rec { a: LTerm, b: LTerm }
    Node,   // #[compound] struct Node(LTerm, Node, Node)  -- recursive, typed fields
    Tuple,  // Rust 2-tuple (LTerm, LTerm)
    Wrap,   // #[compound] struct Wrap(LTerm, Option<Pair>): second argument is [] (None) or a Pair (Some)
    Pair2,  // #[compound] struct Pair(LTerm, LTerm) in ANOTHER module (cmp2): same identifier, same shape, other type
}

impl Kind {
    pub fn arity(self) -> usize {
        match self {
            Kind::Pair | Kind::Duo | Kind::Rec | Kind::Tuple | Kind::Wrap | Kind::Pair2 => 2,
            Kind::Triple | Kind::Node => 3,
        }
    }
    pub fn name(self) -> &'static str {
        match self {
            Kind::Pair => "Pair",
            Kind::Duo => "Duo",
            Kind::Triple => "Triple",
            Kind::Rec => "Rec",
            Kind::Node => "Node",
            Kind::Tuple => "",
            Kind::Wrap => "Wrap",
            Kind::Pair2 => "cmp2::Pair",
        }
    }
    pub fn from_type_name(n: &str) -> Option<Kind> {
        Some(match n {
            "Pair" => Kind::Pair,
            "Duo" => Kind::Duo,
            "Triple" => Kind::Triple,
            "Rec" => Kind::Rec,
            "Node" => Kind::Node,
            "" => Kind::Tuple,
            "Wrap" => Kind::Wrap,
            _ => return None,
        })
    }
    pub const ALL: [Kind; 6] = [Kind::Pair, Kind::Duo, Kind::Triple, Kind::Rec, Kind::Node, Kind::Tuple];
}

#[derive(Clone, PartialEq, Eq, Hash, PartialOrd, Ord, Debug, serde::Serialize, serde::Deserialize)]
pub enum Term {
    Int(i64),
    Bool(bool),
    Char(char),
    Str(String),
    Var(VarId),
    Nil,
    Cons(std::sync::Arc<Term>, std::sync::Arc<Term>),
    Cmp(Kind, Vec<Term>),
}

impl Term {
    /// `Wrap`'s second field is a Rust `Option<Pair>`, not a logic term: it can only be `[]`
    /// (None) or a `Pair` (Some). Replace anything else by `[]`.
    pub fn sanitize_wrap(&self) -> Term {
        match self {
            Term::Cons(h, t) => Term::cons(h.sanitize_wrap(), t.sanitize_wrap()),
            Term::Cmp(Kind::Wrap, a) => {
                let second = match &a[1] {
                    Term::Cmp(Kind::Pair, p) => Term::Cmp(Kind::Pair, p.iter().map(|x| x.sanitize_wrap()).collect()),
                    _ => Term::Nil,
                };
                Term::Cmp(Kind::Wrap, vec![a[0].sanitize_wrap(), second])
            }
            Term::Cmp(k, a) => Term::Cmp(*k, a.iter().map(|x| x.sanitize_wrap()).collect()),
            t => t.clone(),
        }
    }

    pub fn cons(h: Term, t: Term) -> Term {
        Term::Cons(std::sync::Arc::new(h), std::sync::Arc::new(t))
    }
    pub fn list(items: Vec<Term>) -> Term {
        Term::improper(items, Term::Nil)
    }
    pub fn improper(items: Vec<Term>, tail: Term) -> Term {
        let mut t = tail;
        for i in items.into_iter().rev() {
            t = Term::cons(i, t);
        }
        t
    }
    pub fn ints(v: &[i64]) -> Term {
        Term::list(v.iter().map(|i| Term::Int(*i)).collect())
    }
    pub fn is_var(&self) -> bool {
        matches!(self, Term::Var(_))
    }
    pub fn is_ground(&self) -> bool {
        match self {
            Term::Var(_) => false,
            Term::Cons(h, t) => h.is_ground() && t.is_ground(),
            Term::Cmp(_, a) => a.iter().all(|x| x.is_ground()),
            _ => true,
        }
    }
    pub fn vars(&self, out: &mut Vec<VarId>) {
        match self {
            Term::Var(v) => {
                if !out.contains(v) {
                    out.push(*v)
                }
            }
            Term::Cons(h, t) => {
                h.vars(out);
                t.vars(out);
            }
            Term::Cmp(_, a) => a.iter().for_each(|x| x.vars(out)),
            _ => {}
        }
    }
    pub fn size(&self) -> usize {
        match self {
            Term::Cons(h, t) => 1 + h.size() + t.size(),
            Term::Cmp(_, a) => 1 + a.iter().map(|x| x.size()).sum::<usize>(),
            _ => 1,
        }
    }
    pub fn depth(&self) -> usize {
        match self {
            Term::Cons(h, t) => (1 + h.depth()).max(t.depth()),
            Term::Cmp(_, a) => 1 + a.iter().map(|x| x.depth()).max().unwrap_or(0),
            _ => 0,
        }
    }
    /// elements and tail of a (possibly improper) list
    pub fn uncons_all(&self) -> (Vec<&Term>, &Term) {
        let mut items = vec![];
        let mut cur = self;
        while let Term::Cons(h, t) = cur {
            items.push(&**h);
            cur = t;
        }
        (items, cur)
    }
    pub fn as_proper_list(&self) -> Option<Vec<&Term>> {
        let (items, tail) = self.uncons_all();
        if *tail == Term::Nil {
            Some(items)
        } else {
            None
        }
    }
    pub fn has_compound(&self) -> bool {
        match self {
            Term::Cmp(..) => true,
            Term::Cons(h, t) => h.has_compound() || t.has_compound(),
            _ => false,
        }
    }
    pub fn has_improper(&self) -> bool {
        match self {
            Term::Cons(h, t) => {
                let (_, tail) = self.uncons_all();
                (*tail != Term::Nil) || h.has_improper() || t.has_improper()
            }
            Term::Cmp(_, a) => a.iter().any(|x| x.has_improper()),
            _ => false,
        }
    }
    pub fn map_vars(&self, f: &mut dyn FnMut(VarId) -> Term) -> Term {
        match self {
            Term::Var(v) => f(*v),
            Term::Cons(h, t) => Term::cons(h.map_vars(f), t.map_vars(f)),
            Term::Cmp(k, a) => Term::Cmp(*k, a.iter().map(|x| x.map_vars(f)).collect()),
            t => t.clone(),
        }
    }
}

/// Pass as `nq` to print the variables of an answer as `_N`.
pub const ANSWER: usize = usize::MAX;

/// Variable naming used by the printer.
pub fn var_name(v: VarId, nq: usize) -> String {
    if nq == ANSWER {
        // reified variables of an answer
        format!("_{}", v)
    } else if v >= WILD_BASE {
        "_".to_string()
    } else if (v as usize) < nq {
        format!("q{}", v)
    } else {
        format!("v{}", v)
    }
}

pub fn show_term(t: &Term, nq: usize) -> String {
    let mut s = String::new();
    fmt_term(t, nq, &mut s);
    s
}

fn fmt_term(t: &Term, nq: usize, s: &mut String) {
    match t {
        Term::Int(i) => {
            if *i < 0 {
                let _ = write!(s, "{{{}}}", i);
            } else {
                let _ = write!(s, "{}", i);
            }
        }
        Term::Bool(b) => {
            let _ = write!(s, "{}", b);
        }
        Term::Char(c) => {
            let _ = write!(s, "{:?}", c);
        }
        Term::Str(x) => {
            let _ = write!(s, "{:?}", x);
        }
        Term::Var(v) => s.push_str(&var_name(*v, nq)),
        Term::Nil => s.push_str("[]"),
        Term::Cons(..) => {
            let (items, tail) = t.uncons_all();
            s.push('[');
            for (i, it) in items.iter().enumerate() {
                if i > 0 {
                    s.push_str(", ");
                }
                fmt_term(it, nq, s);
            }
            if *tail != Term::Nil {
                s.push_str(" | ");
                fmt_term(tail, nq, s);
            }
            s.push(']');
        }
        Term::Cmp(k, a) => {
            if *k == Kind::Rec {
                s.push_str("Rec { a: ");
                fmt_term(&a[0], nq, s);
                s.push_str(", b: ");
                fmt_term(&a[1], nq, s);
                s.push_str(" }");
            } else {
                s.push_str(k.name());
                s.push('(');
                for (i, it) in a.iter().enumerate() {
                    if i > 0 {
                        s.push_str(", ");
                    }
                    fmt_term(it, nq, s);
                }
                s.push(')');
            }
        }
    }
}

#[derive(Clone, Copy, PartialEq, Eq, Hash, Debug)]
pub enum Rel {
    // library relations
    Member,
    Member1,
    Append,
    Rember,
    Permute,
    Distinct,
    Cons,
    First,
    Rest,
    Empty,
    // harness-defined recursive relations (written with proto_vulcan_closure! in build.rs,
    // mirrored as AST definitions in model/interp.rs)
    /// nat(x): x ∈ {0, 1, 2, …}, encoded as lists of unit: [], [1], [1,1], …  (infinite)
    Nat,
    /// lenle(l, n): l is a list of length ≤ |n| whose elements are free (n a ground unary nat)
    LenLe,
    /// countdown(n, l): l = [n, n-1, …] as unary nats, by structural recursion on n
    Downfrom,
    /// diverge(): a closure calling itself, never producing an answer (infinite, silent)
    Diverge,
    /// memberrev(x, l): member with the RECURSIVE clause first (answers in reverse list order
    /// under depth-first search; a deep spine of pending alternatives)
    MemberRev,
    /// zeros(l): every element of the proper list l is 0 — the recursive call is NOT the last
    /// goal of its clause (`l == [h | t], zeros(t), h == 0`), so n nested binds are alive
    Zeros,
    /// nrev(l, r): naive reverse (recursion, then append)
    Nrev,
    /// deepnever(l): walks the proper list l by NON-tail recursion and calls never() at its end:
    /// a silent diverger below |l| pending conjunctions (interleaving search only)
    DeepNever,
}

impl Rel {
    pub fn name(self) -> &'static str {
        match self {
            Rel::Member => "member",
            Rel::Member1 => "member1",
            Rel::Append => "append",
            Rel::Rember => "rember",
            Rel::Permute => "permute",
            Rel::Distinct => "distinct",
            Rel::Cons => "cons",
            Rel::First => "first",
            Rel::Rest => "rest",
            Rel::Empty => "empty",
            Rel::Nat => "nat",
            Rel::LenLe => "lenle",
            Rel::Downfrom => "downfrom",
            Rel::Diverge => "diverge",
            Rel::MemberRev => "memberrev",
            Rel::Zeros => "zeros",
            Rel::Nrev => "nrev",
            Rel::DeepNever => "deepnever",
        }
    }
    pub fn arity(self) -> usize {
        match self {
            Rel::Member | Rel::Member1 | Rel::Permute | Rel::First | Rel::Rest | Rel::LenLe | Rel::Downfrom | Rel::MemberRev | Rel::Nrev => 2,
            Rel::Append | Rel::Rember | Rel::Cons => 3,
            Rel::Distinct | Rel::Empty | Rel::Nat | Rel::Zeros | Rel::DeepNever => 1,
            Rel::Diverge => 0,
        }
    }
}

#[derive(Clone, PartialEq, Eq, Hash, Debug)]
pub enum FdGoal {
    InFd(Term, Vec<i64>),
    InFdRange(Term, i64, i64),
    Lte(Term, Term),
    Lt(Term, Term),
    Plus(Term, Term, Term),
    Minus(Term, Term, Term),
    Times(Term, Term, Term),
    Diseq(Term, Term),
    Distinct(Term),
}

#[derive(Clone, PartialEq, Eq, Hash, Debug)]
pub enum ZGoal {
    Plus(Term, Term, Term),
    Times(Term, Term, Term),
}

#[derive(Clone, PartialEq, Eq, Hash, Debug)]
pub enum NonRel {
    /// sqeq(x, q): x must be a ground integer when reached; q == x*x (mirrors the suite's sqeq)
    SqEq(Term, Term),
    /// q == x + k for a ground integer x, fails otherwise
    AddConst(Term, i64, Term),
    /// succeeds iff the (projected) term is a ground integer
    IsGroundInt(Term),
    /// succeeds iff the (projected) term contains no variable at any depth (structural test on
    /// the term the goal holds; no substitution is consulted)
    IsGroundTerm(Term),
}

#[derive(Clone, Copy, PartialEq, Eq, Hash, Debug)]
pub enum MatchKind {
    Match,
    Matche,
    Matcha,
    Matchu,
}

#[derive(Clone, PartialEq, Eq, Hash, Debug)]
pub struct Arm {
    /// alternatives p1 | p2 sharing the body
    pub patterns: Vec<Term>,
    /// pattern variables (fresh, local to the arm); for each alternative only the ones that
    /// occur in it are declared, exactly as the macro does
    pub body: Vec<Goal>,
}

#[derive(Clone, PartialEq, Eq, Hash, Debug)]
pub enum Goal {
    Succeed,
    Fail,
    Eq(Term, Term),
    Diseq(Term, Term),
    Conj(Vec<Goal>),
    Conde(Vec<Vec<Goal>>),
    Fresh(Vec<VarId>, Vec<Goal>),
    Closure(Vec<Goal>),
    Dfs(Vec<Goal>),
    Conda(Vec<Vec<Goal>>),
    Condu(Vec<Vec<Goal>>),
    Onceo(Vec<Goal>),
    Anyo(Vec<Goal>),
    Always,
    Never,
    Call(Rel, Vec<Term>),
    Fd(FdGoal),
    Z(ZGoal),
    Project(Vec<VarId>, Vec<Goal>),
    NonRel(NonRel),
    For(VarId, Vec<Term>, Vec<Goal>),
    /// `for x in &t { body }` where the collection is ONE term that is a proper list by the time
    /// the goal is solved (used below `project |t| { .. }`: the collection is known at solve
    /// time only)
    ForIn(VarId, Term, Vec<Goal>),
    Match(MatchKind, Term, Vec<Arm>),
    /// fngoal appending `id` to the user-state trace
    Probe(u32),
    /// fngoal adding k to the user-state counter
    UserUpd(i64),
    /// fngoal unifying the term with the next ticket number (shared counter per run)
    Ticket(Term),
    /// fngoal unifying the term with the current user-state counter
    ReadUser(Term),
}

#[derive(Clone, PartialEq, Eq, Hash, Debug)]
pub struct Program {
    /// query variables are VarId 0..nq
    pub nq: usize,
    pub body: Vec<Goal>,
}

impl Program {
    pub fn show(&self) -> String {
        let mut s = String::new();
        s.push('|');
        for i in 0..self.nq {
            if i > 0 {
                s.push_str(", ");
            }
            s.push_str(&var_name(i as VarId, self.nq));
        }
        s.push_str("| { ");
        fmt_goals(&self.body, self.nq, &mut s);
        s.push_str(" }");
        s
    }
    pub fn max_var(&self) -> VarId {
        let mut m = self.nq as VarId;
        for g in &self.body {
            g.visit_vars(&mut |v| m = m.max(v + 1));
        }
        m
    }
    pub fn goal_count(&self) -> usize {
        self.body.iter().map(|g| g.count()).sum()
    }
}

pub fn show_goal(g: &Goal, nq: usize) -> String {
    let mut s = String::new();
    fmt_goal(g, nq, &mut s);
    s
}

pub fn show_goals(gs: &[Goal], nq: usize) -> String {
    let mut s = String::new();
    fmt_goals(gs, nq, &mut s);
    s
}

fn fmt_goals(gs: &[Goal], nq: usize, s: &mut String) {
    for (i, g) in gs.iter().enumerate() {
        if i > 0 {
            s.push_str(", ");
        }
        fmt_goal(g, nq, s);
    }
}

fn fmt_clauses(name: &str, cls: &[Vec<Goal>], nq: usize, s: &mut String) {
    s.push_str(name);
    s.push_str(" { ");
    for (i, c) in cls.iter().enumerate() {
        if i > 0 {
            s.push_str(", ");
        }
        if c.len() == 1 {
            fmt_goal(&c[0], nq, s);
        } else {
            s.push('[');
            fmt_goals(c, nq, s);
            s.push(']');
        }
    }
    s.push_str(" }");
}

fn fmt_block(name: &str, gs: &[Goal], nq: usize, s: &mut String) {
    s.push_str(name);
    s.push_str(" { ");
    fmt_goals(gs, nq, s);
    s.push_str(" }");
}

fn t(x: &Term, nq: usize) -> String {
    show_term(x, nq)
}

fn fmt_goal(g: &Goal, nq: usize, s: &mut String) {
    match g {
        Goal::Succeed => s.push_str("true"),
        Goal::Fail => s.push_str("false"),
        Goal::Eq(a, b) => {
            let _ = write!(s, "{} == {}", t(a, nq), t(b, nq));
        }
        Goal::Diseq(a, b) => {
            let _ = write!(s, "{} != {}", t(a, nq), t(b, nq));
        }
        Goal::Conj(gs) => {
            s.push('[');
            fmt_goals(gs, nq, s);
            s.push(']');
        }
        Goal::Conde(c) => fmt_clauses("conde", c, nq, s),
        Goal::Conda(c) => fmt_clauses("conda", c, nq, s),
        Goal::Condu(c) => fmt_clauses("condu", c, nq, s),
        Goal::Fresh(vs, gs) => {
            s.push('|');
            for (i, v) in vs.iter().enumerate() {
                if i > 0 {
                    s.push_str(", ");
                }
                s.push_str(&var_name(*v, nq));
            }
            s.push_str("| { ");
            fmt_goals(gs, nq, s);
            s.push_str(" }");
        }
        Goal::Closure(gs) => fmt_block("closure", gs, nq, s),
        Goal::Dfs(gs) => fmt_block("dfs", gs, nq, s),
        Goal::Onceo(gs) => fmt_block("onceo", gs, nq, s),
        Goal::Anyo(gs) => fmt_block("loop", gs, nq, s),
        Goal::Always => s.push_str("always()"),
        Goal::Never => s.push_str("never()"),
        Goal::Call(r, args) => {
            s.push_str(r.name());
            s.push('(');
            for (i, a) in args.iter().enumerate() {
                if i > 0 {
                    s.push_str(", ");
                }
                s.push_str(&t(a, nq));
            }
            s.push(')');
        }
        Goal::Fd(f) => {
            let _ = match f {
                FdGoal::InFd(x, d) => write!(s, "infd({}, &{:?})", t(x, nq), d),
                FdGoal::InFdRange(x, a, b) => write!(s, "infdrange({}, &({}..={}))", t(x, nq), a, b),
                FdGoal::Lte(a, b) => write!(s, "ltefd({}, {})", t(a, nq), t(b, nq)),
                FdGoal::Lt(a, b) => write!(s, "ltfd({}, {})", t(a, nq), t(b, nq)),
                FdGoal::Plus(a, b, c) => write!(s, "plusfd({}, {}, {})", t(a, nq), t(b, nq), t(c, nq)),
                FdGoal::Minus(a, b, c) => write!(s, "minusfd({}, {}, {})", t(a, nq), t(b, nq), t(c, nq)),
                FdGoal::Times(a, b, c) => write!(s, "timesfd({}, {}, {})", t(a, nq), t(b, nq), t(c, nq)),
                FdGoal::Diseq(a, b) => write!(s, "diseqfd({}, {})", t(a, nq), t(b, nq)),
                FdGoal::Distinct(a) => write!(s, "distinctfd({})", t(a, nq)),
            };
        }
        Goal::Z(z) => {
            let _ = match z {
                ZGoal::Plus(a, b, c) => write!(s, "plusz({}, {}, {})", t(a, nq), t(b, nq), t(c, nq)),
                ZGoal::Times(a, b, c) => write!(s, "timesz({}, {}, {})", t(a, nq), t(b, nq), t(c, nq)),
            };
        }
        Goal::Project(vs, gs) => {
            s.push_str("project |");
            for (i, v) in vs.iter().enumerate() {
                if i > 0 {
                    s.push_str(", ");
                }
                s.push_str(&var_name(*v, nq));
            }
            s.push_str("| { ");
            fmt_goals(gs, nq, s);
            s.push_str(" }");
        }
        Goal::NonRel(n) => {
            let _ = match n {
                NonRel::SqEq(x, q) => write!(s, "sqeq({}, {})", t(x, nq), t(q, nq)),
                NonRel::AddConst(x, k, q) => write!(s, "addconst({}, {}, {})", t(x, nq), k, t(q, nq)),
                NonRel::IsGroundInt(x) => write!(s, "is_ground_int({})", t(x, nq)),
                NonRel::IsGroundTerm(x) => write!(s, "is_ground_term({})", t(x, nq)),
            };
        }
        Goal::For(x, coll, body) => {
            let _ = write!(s, "for {} in [", var_name(*x, nq));
            for (i, e) in coll.iter().enumerate() {
                if i > 0 {
                    s.push_str(", ");
                }
                s.push_str(&t(e, nq));
            }
            s.push_str("] { ");
            fmt_goals(body, nq, s);
            s.push_str(" }");
        }
        Goal::ForIn(x, coll, body) => {
            let _ = write!(s, "for {} in &{} {{ ", var_name(*x, nq), t(coll, nq));
            fmt_goals(body, nq, s);
            s.push_str(" }");
        }
        Goal::Match(k, tm, arms) => {
            let name = match k {
                MatchKind::Match => "match",
                MatchKind::Matche => "matche",
                MatchKind::Matcha => "matcha",
                MatchKind::Matchu => "matchu",
            };
            let _ = write!(s, "{} {} {{ ", name, t(tm, nq));
            for (i, a) in arms.iter().enumerate() {
                if i > 0 {
                    s.push_str(", ");
                }
                for (j, p) in a.patterns.iter().enumerate() {
                    if j > 0 {
                        s.push_str(" | ");
                    }
                    s.push_str(&t(p, nq));
                }
                s.push_str(" => ");
                if a.body.is_empty() {
                } else if a.body.len() == 1 {
                    fmt_goal(&a.body[0], nq, s);
                } else {
                    s.push_str("{ ");
                    fmt_goals(&a.body, nq, s);
                    s.push_str(" }");
                }
            }
            s.push_str(" }");
        }
        Goal::Probe(i) => {
            let _ = write!(s, "probe({})", i);
        }
        Goal::UserUpd(k) => {
            let _ = write!(s, "user_add({})", k);
        }
        Goal::Ticket(x) => {
            let _ = write!(s, "ticket({})", t(x, nq));
        }
        Goal::ReadUser(x) => {
            let _ = write!(s, "read_user({})", t(x, nq));
        }
    }
}

impl Goal {
    pub fn count(&self) -> usize {
        let sub = |gs: &Vec<Goal>| gs.iter().map(|g| g.count()).sum::<usize>();
        1 + match self {
            Goal::Conj(gs) | Goal::Fresh(_, gs) | Goal::Closure(gs) | Goal::Dfs(gs) | Goal::Onceo(gs) | Goal::Anyo(gs) | Goal::Project(_, gs) | Goal::For(_, _, gs) | Goal::ForIn(_, _, gs) => sub(gs),
            Goal::Conde(c) | Goal::Conda(c) | Goal::Condu(c) => c.iter().map(sub).sum(),
            Goal::Match(_, _, arms) => arms.iter().map(|a| sub(&a.body)).sum(),
            _ => 0,
        }
    }

    pub fn visit_terms(&self, f: &mut dyn FnMut(&Term)) {
        match self {
            Goal::Eq(a, b) | Goal::Diseq(a, b) => {
                f(a);
                f(b);
            }
            Goal::Call(_, args) => args.iter().for_each(|a| f(a)),
            Goal::Fd(fd) => match fd {
                FdGoal::InFd(x, _) | FdGoal::InFdRange(x, _, _) | FdGoal::Distinct(x) => f(x),
                FdGoal::Lte(a, b) | FdGoal::Lt(a, b) | FdGoal::Diseq(a, b) => {
                    f(a);
                    f(b);
                }
                FdGoal::Plus(a, b, c) | FdGoal::Minus(a, b, c) | FdGoal::Times(a, b, c) => {
                    f(a);
                    f(b);
                    f(c);
                }
            },
            Goal::Z(ZGoal::Plus(a, b, c)) | Goal::Z(ZGoal::Times(a, b, c)) => {
                f(a);
                f(b);
                f(c);
            }
            Goal::NonRel(NonRel::SqEq(a, b)) | Goal::NonRel(NonRel::AddConst(a, _, b)) => {
                f(a);
                f(b);
            }
            Goal::NonRel(NonRel::IsGroundInt(a)) | Goal::NonRel(NonRel::IsGroundTerm(a)) | Goal::Ticket(a) | Goal::ReadUser(a) => f(a),
            Goal::For(_, coll, _) => coll.iter().for_each(|a| f(a)),
            Goal::ForIn(_, coll, _) => f(coll),
            Goal::Match(_, tm, arms) => {
                f(tm);
                for a in arms {
                    a.patterns.iter().for_each(|p| f(p));
                }
            }
            _ => {}
        }
        self.for_children(&mut |g| g.visit_terms(f));
    }

    pub fn for_children(&self, f: &mut dyn FnMut(&Goal)) {
        match self {
            Goal::Conj(gs) | Goal::Fresh(_, gs) | Goal::Closure(gs) | Goal::Dfs(gs) | Goal::Onceo(gs) | Goal::Anyo(gs) | Goal::Project(_, gs) | Goal::For(_, _, gs) | Goal::ForIn(_, _, gs) => gs.iter().for_each(|g| f(g)),
            Goal::Conde(c) | Goal::Conda(c) | Goal::Condu(c) => c.iter().for_each(|gs| gs.iter().for_each(|g| f(g))),
            Goal::Match(_, _, arms) => arms.iter().for_each(|a| a.body.iter().for_each(|g| f(g))),
            _ => {}
        }
    }

    pub fn visit_binders(&self, f: &mut dyn FnMut(VarId)) {
        match self {
            Goal::Fresh(vs, _) | Goal::Project(vs, _) => vs.iter().for_each(|v| f(*v)),
            Goal::For(x, _, _) | Goal::ForIn(x, _, _) => f(*x),
            _ => {}
        }
        self.for_children(&mut |g| g.visit_binders(f));
    }

    /// every variable id mentioned anywhere (binders and terms)
    pub fn visit_vars(&self, f: &mut dyn FnMut(VarId)) {
        self.visit_binders(f);
        let mut tmp = vec![];
        self.visit_terms(&mut |t| t.vars(&mut tmp));
        tmp.into_iter().for_each(|v| f(v));
    }

    pub fn any(&self, p: &dyn Fn(&Goal) -> bool) -> bool {
        if p(self) {
            return true;
        }
        let mut r = false;
        self.for_children(&mut |g| {
            if !r && g.any(p) {
                r = true
            }
        });
        r
    }

    /// Rebuild with sub-goal lists mapped by `f` (used by the permutation / rewriting checks).
    pub fn map_lists(&self, f: &mut dyn FnMut(&[Goal], ListPos) -> Vec<Goal>, fc: &mut dyn FnMut(Vec<Vec<Goal>>) -> Vec<Vec<Goal>>) -> Goal {
        let mut ml = |gs: &Vec<Goal>, pos: ListPos, f: &mut dyn FnMut(&[Goal], ListPos) -> Vec<Goal>, fc: &mut dyn FnMut(Vec<Vec<Goal>>) -> Vec<Vec<Goal>>| -> Vec<Goal> {
            let inner: Vec<Goal> = gs.iter().map(|g| g.map_lists(f, fc)).collect();
            f(&inner, pos)
        };
        match self {
            Goal::Conj(gs) => Goal::Conj(ml(gs, ListPos::Conj, f, fc)),
            Goal::Fresh(v, gs) => Goal::Fresh(v.clone(), ml(gs, ListPos::Conj, f, fc)),
            Goal::Closure(gs) => Goal::Closure(ml(gs, ListPos::Conj, f, fc)),
            Goal::Dfs(gs) => Goal::Dfs(ml(gs, ListPos::Conj, f, fc)),
            Goal::Conde(c) => {
                let cl: Vec<Vec<Goal>> = c.iter().map(|gs| ml(gs, ListPos::Conj, f, fc)).collect();
                Goal::Conde(fc(cl))
            }
            g => g.clone(),
        }
    }
}

#[derive(Clone, Copy, PartialEq, Eq, Debug)]
pub enum ListPos {
    Conj,
}
