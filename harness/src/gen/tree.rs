//! Family T: pure tree programs (==, !=, conjunction, conde, fresh), with a motif for
//! subsuming disequality pairs and for constraints on hidden variables.

use crate::ast::{Goal, Kind, Program, Term, VarId};
use crate::gen::terms::{gen_term, TermCfg};
use crate::source::Source;

#[derive(Clone, Debug)]
pub struct TreeCfg {
    pub nq_max: usize,
    pub max_atoms: usize,
    pub max_fresh: usize,
    pub conde: bool,
    pub fresh: bool,
    pub diseq: bool,
    pub nested_conj: bool,
    pub kinds: Vec<Kind>,
    pub max_depth: usize,
    pub improper: bool,
    pub motifs: bool,
}

impl TreeCfg {
    pub fn c02() -> TreeCfg {
        TreeCfg {
            nq_max: 2,
            max_atoms: 6,
            max_fresh: 2,
            conde: true,
            fresh: true,
            diseq: true,
            nested_conj: true,
            kinds: vec![Kind::Pair],
            max_depth: 2,
            improper: true,
            motifs: true,
        }
    }
}

pub struct TreeGen<'a, 'b> {
    pub s: &'a mut Source<'b>,
    pub cfg: TreeCfg,
    pub next_var: VarId,
    pub atoms_left: usize,
    pub fresh_left: usize,
}

impl<'a, 'b> TreeGen<'a, 'b> {
    fn tcfg(&self, scope: &[VarId]) -> TermCfg {
        let mut c = TermCfg::small_ints(scope.to_vec());
        c.kinds = self.cfg.kinds.clone();
        c.max_depth = self.cfg.max_depth;
        c.improper = self.cfg.improper;
        if self.cfg.kinds.is_empty() {
            c.w[4] = 0;
        }
        c
    }

    fn term(&mut self, scope: &[VarId]) -> Term {
        let c = self.tcfg(scope);
        gen_term(self.s, &c, 0)
    }

    fn atomic(&mut self, scope: &[VarId]) -> Goal {
        self.atoms_left = self.atoms_left.saturating_sub(1);
        // bias the left side towards a variable so that goals interact
        let l = if self.s.flag(140) && !scope.is_empty() {
            Term::Var(scope[self.s.below(scope.len())])
        } else {
            self.term(scope)
        };
        let r = self.term(scope);
        if self.cfg.diseq && self.s.flag(115) {
            Goal::Diseq(l, r)
        } else {
            Goal::Eq(l, r)
        }
    }

    /// `x != c`, `[x, y] != [c, d]` in either order, then bindings that decide them.
    fn motif_subsume(&mut self, scope: &[VarId], out: &mut Vec<Goal>) {
        if scope.len() < 2 {
            out.push(self.atomic(scope));
            return;
        }
        let x = scope[self.s.below(scope.len())];
        let mut y = scope[self.s.below(scope.len())];
        if y == x {
            y = scope[(scope.iter().position(|v| *v == x).unwrap() + 1) % scope.len()];
        }
        let c = Term::Int(self.s.below(3) as i64);
        let d = Term::Int(self.s.below(3) as i64);
        let weak = Goal::Diseq(Term::list(vec![Term::Var(x), Term::Var(y)]), Term::list(vec![c.clone(), d.clone()]));
        let strong = Goal::Diseq(Term::Var(x), c.clone());
        let mut gs = if self.s.flag(128) { vec![strong, weak] } else { vec![weak, strong] };
        if self.s.flag(64) {
            // the same weak constraint twice
            gs.push(gs[0].clone());
        }
        let nb = self.s.below(3);
        for i in 0..nb {
            let (v, k) = if i == 0 { (x, &c) } else { (y, &d) };
            let val = if self.s.flag(170) { k.clone() } else { Term::Int(self.s.below(4) as i64) };
            gs.push(Goal::Eq(Term::Var(v), val));
        }
        // optionally interleave: bindings first
        if self.s.flag(60) {
            gs.reverse();
        }
        self.atoms_left = self.atoms_left.saturating_sub(gs.len());
        out.extend(gs);
    }

    pub fn goals(&mut self, scope: &mut Vec<VarId>, depth: usize, min: usize) -> Vec<Goal> {
        let mut out = vec![];
        let n = min + self.s.below(4);
        for _ in 0..n {
            if self.atoms_left == 0 {
                break;
            }
            let mut w = [10u32, 0, 0, 0, 0];
            if depth < 2 {
                if self.cfg.conde {
                    w[1] = 3;
                }
                if self.cfg.fresh && self.fresh_left > 0 {
                    w[2] = 2;
                }
                if self.cfg.nested_conj {
                    w[3] = 1;
                }
            }
            if self.cfg.motifs && self.cfg.diseq {
                w[4] = 2;
            }
            match self.s.weighted(&w) {
                0 => out.push(self.atomic(scope)),
                1 => {
                    let k = 2 + self.s.below(2);
                    let mut clauses = vec![];
                    for _ in 0..k {
                        let mut sc = scope.clone();
                        let c = self.goals(&mut sc, depth + 1, 1);
                        clauses.push(c);
                    }
                    out.push(Goal::Conde(clauses));
                }
                2 => {
                    let k = 1 + self.s.below(self.fresh_left.min(2));
                    self.fresh_left -= k;
                    let vs: Vec<VarId> = (0..k)
                        .map(|_| {
                            let v = self.next_var;
                            self.next_var += 1;
                            v
                        })
                        .collect();
                    let mut sc = scope.clone();
                    sc.extend(vs.iter().copied());
                    let body = self.goals(&mut sc, depth + 1, 1);
                    out.push(Goal::Fresh(vs, body));
                }
                3 => {
                    let mut sc = scope.clone();
                    let body = self.goals(&mut sc, depth + 1, 1);
                    out.push(Goal::Conj(body));
                }
                _ => self.motif_subsume(scope, &mut out),
            }
        }
        if out.is_empty() {
            out.push(self.atomic(scope));
        }
        out
    }
}

pub fn gen_program(s: &mut Source, cfg: &TreeCfg) -> Program {
    let nq = 1 + s.below(cfg.nq_max);
    let mut g = TreeGen { s, cfg: cfg.clone(), next_var: nq as VarId, atoms_left: cfg.max_atoms, fresh_left: cfg.max_fresh };
    let mut scope: Vec<VarId> = (0..nq as VarId).collect();
    let body = g.goals(&mut scope, 0, 1);
    Program { nq, body }
}
