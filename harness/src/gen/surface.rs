//! Generators for compiled surface programs (C13 pattern matching, C14 clause grammar,
//! C15 scoping). They produce an AST plus the display names the emitter prints; only forms the
//! macro grammar accepts are produced (see emit.rs).

use crate::ast::*;
use crate::emit::Names;
use crate::source::Source;
use std::collections::HashSet;

pub struct SurfGen<'a, 'b> {
    pub s: &'a mut Source<'b>,
    pub next_var: VarId,
    pub names: Names,
    /// variables moved into a `closure { }` (no textual use afterwards)
    pub moved: HashSet<VarId>,
    pub goals_left: usize,
    pub allow_wild: bool,
    pub kinds_seen: HashSet<&'static str>,
    pub in_for: bool,
    /// inside a closure body: a nested closure would move captures out of an `Fn` closure
    pub in_closure: bool,
}

const STRS: [&str; 6] = ["s", "", "a\"b", "tab\tnl\n", "\u{e9}\u{4e16}", "\\"];
const CHARS: [char; 5] = ['a', '\n', '\'', '\u{e9}', ' '];
const INTS: [i64; 8] = [0, 1, 2, 3, 7, 42, 1234567, 4611686018427387904];

impl<'a, 'b> SurfGen<'a, 'b> {
    pub fn new(s: &'a mut Source<'b>, first_var: VarId) -> SurfGen<'a, 'b> {
        SurfGen { s, next_var: first_var, names: Names::default(), moved: HashSet::new(), goals_left: 10, allow_wild: true, kinds_seen: HashSet::new(), in_for: false, in_closure: false }
    }

    pub fn fresh_id(&mut self) -> VarId {
        let v = self.next_var;
        self.next_var += 1;
        v
    }

    fn usable(&self, scope: &[VarId]) -> Vec<VarId> {
        scope.iter().copied().filter(|v| !self.moved.contains(v)).collect()
    }

    pub fn literal(&mut self) -> Term {
        match self.s.weighted(&[8, 2, 2, 2]) {
            0 => Term::Int(INTS[self.s.weighted(&[6, 6, 5, 4, 2, 2, 1, 1])]),
            1 => Term::Bool(self.s.flag(128)),
            2 => Term::Char(CHARS[self.s.below(CHARS.len())]),
            _ => Term::Str(STRS[self.s.below(STRS.len())].to_string()),
        }
    }

    pub fn var_or_lit(&mut self, scope: &[VarId]) -> Term {
        let u = self.usable(scope);
        if !u.is_empty() && self.s.flag(150) {
            Term::Var(u[self.s.below(u.len())])
        } else {
            self.literal()
        }
    }

    /// TreeTerm grammar: literals, variables, `_`, nested proper / improper lists
    pub fn tree_term(&mut self, scope: &[VarId], depth: usize) -> Term {
        let mut w = [5u32, 6, 1, 4, 1];
        if depth >= 2 {
            w[3] = 0;
        }
        if !self.allow_wild || self.in_for {
            w[4] = 0;
        }
        match self.s.weighted(&w) {
            0 => self.literal(),
            1 => self.var_or_lit(scope),
            2 => Term::Nil,
            3 => {
                let n = 1 + self.s.below(3);
                let items: Vec<Term> = (0..n).map(|_| self.tree_term(scope, depth + 1)).collect();
                if self.s.flag(60) {
                    // improper tail: variable, `_` or literal
                    let tail = if self.allow_wild && !self.in_for && self.s.flag(60) { self.wild() } else { self.var_or_lit(scope) };
                    self.kinds_seen.insert("improper-list");
                    Term::improper(items, tail)
                } else {
                    if depth >= 1 {
                        self.kinds_seen.insert("nested-list");
                    }
                    Term::list(items)
                }
            }
            _ => self.wild(),
        }
    }

    fn wild(&mut self) -> Term {
        let v = self.fresh_id();
        self.names.wild.insert(v);
        self.kinds_seen.insert("wildcard");
        Term::Var(v)
    }

    /// argument of ==, != or a relation: tree term, negative integer, compound constructor
    pub fn arg(&mut self, scope: &[VarId]) -> Term {
        match self.s.weighted(&[10, 1, 2]) {
            0 => self.tree_term(scope, 0),
            1 => {
                self.kinds_seen.insert("negative-int-expr");
                Term::Int(-(1 + self.s.below(5) as i64))
            }
            _ => {
                self.kinds_seen.insert("compound-constructor");
                let k = [Kind::Pair, Kind::Triple, Kind::Tuple, Kind::Duo][self.s.below(4)];
                let args: Vec<Term> = (0..k.arity())
                    .map(|_| {
                        if self.s.flag(40) {
                            let a = self.tree_term(scope, 1);
                            let b = self.tree_term(scope, 1);
                            Term::Cmp(Kind::Pair, vec![a, b])
                        } else {
                            self.tree_term(scope, 1)
                        }
                    })
                    .collect();
                Term::Cmp(k, args)
            }
        }
    }

    fn atomic(&mut self, scope: &[VarId]) -> Goal {
        // two scalar literals compared with each other (the same value or different ones)
        if self.s.flag(24) {
            self.kinds_seen.insert("literal-against-literal");
            let a = self.literal();
            let b = if self.s.flag(170) { a.clone() } else { self.literal() };
            return if self.s.flag(100) { Goal::Diseq(a, b) } else { Goal::Eq(a, b) };
        }
        // both sides spelled identically, with `_` in them: every `_` is a variable of its own,
        // so `[_, q] != [_, q]` is satisfiable although `x != x` is not
        if self.allow_wild && !self.in_for && self.s.flag(14) {
            self.kinds_seen.insert("identical-spelling-with-wildcards");
            let w1 = self.wild();
            let other = self.var_or_lit(scope);
            let l = match self.s.below(3) {
                0 => w1,
                1 => Term::list(vec![w1, other]),
                _ => Term::improper(vec![other], w1),
            };
            let mut olds = vec![];
            l.vars(&mut olds);
            let olds: Vec<VarId> = olds.into_iter().filter(|v| self.names.wild.contains(v)).collect();
            let map: Vec<(VarId, Term)> = olds.iter().map(|v| (*v, self.wild())).collect();
            let r = l.map_vars(&mut |v| map.iter().find(|(o, _)| *o == v).map(|(_, n)| n.clone()).unwrap_or(Term::Var(v)));
            return if self.s.flag(180) { Goal::Diseq(l, r) } else { Goal::Eq(l, r) };
        }
        // a long list literal, proper or with a tail after the `|`
        if self.s.flag(12) {
            self.kinds_seen.insert("long-list-literal");
            let n = 20 + self.s.below(50);
            let items: Vec<Term> = (0..n).map(|i| Term::Int((i % 7) as i64)).collect();
            let u = self.usable(scope);
            let tail = if self.s.flag(150) && !u.is_empty() { Term::Var(u[self.s.below(u.len())]) } else if self.s.flag(128) { Term::Nil } else { self.literal() };
            let t = Term::improper(items, tail);
            let l = if !u.is_empty() { Term::Var(u[self.s.below(u.len())]) } else { Term::Nil };
            return Goal::Eq(l, t);
        }
        let u = self.usable(scope);
        let l = if !u.is_empty() && self.s.flag(150) { Term::Var(u[self.s.below(u.len())]) } else { self.arg(scope) };
        let r = self.arg(scope);
        if self.s.flag(70) {
            self.kinds_seen.insert("!=");
            Goal::Diseq(l, r)
        } else {
            self.kinds_seen.insert("==");
            Goal::Eq(l, r)
        }
    }

    fn small_list(&mut self, scope: &[VarId]) -> Term {
        let n = self.s.below(4);
        Term::list((0..n).map(|_| if self.s.flag(60) { self.var_or_lit(scope) } else { Term::Int(self.s.below(4) as i64) }).collect())
    }

    fn call(&mut self, scope: &[VarId]) -> Goal {
        self.kinds_seen.insert("relation-call");
        let v = |g: &mut Self| g.var_or_lit(scope);
        match self.s.below(7) {
            0 => Goal::Call(Rel::Member, vec![v(self), self.small_list(scope)]),
            1 => Goal::Call(Rel::Append, vec![v(self), v(self), self.small_list(scope)]),
            2 => Goal::Call(Rel::Append, vec![self.small_list(scope), self.small_list(scope), v(self)]),
            3 => Goal::Call(Rel::Member1, vec![v(self), self.small_list(scope)]),
            4 => Goal::Call(Rel::Rember, vec![v(self), self.small_list(scope), v(self)]),
            5 => Goal::Call(Rel::LenLe, vec![v(self), Term::list(vec![Term::Int(1); self.s.below(3)])]),
            _ => Goal::Call(Rel::Cons, vec![v(self), v(self), v(self)]),
        }
    }

    fn mentioned(gs: &[Goal]) -> Vec<VarId> {
        let mut v = vec![];
        for g in gs {
            g.visit_vars(&mut |x| {
                if !v.contains(&x) {
                    v.push(x)
                }
            });
        }
        v
    }

    pub fn goals(&mut self, scope: &mut Vec<VarId>, depth: usize, min: usize) -> Vec<Goal> {
        let mut out = vec![];
        let n = min + self.s.below(3);
        for _ in 0..n {
            if self.goals_left == 0 {
                break;
            }
            self.goals_left -= 1;
            let mut w = [8u32, 0, 0, 0, 0, 4, 1, 0, 0];
            if depth < 2 && !self.in_closure {
                w[8] = 1; // dfs { } block
            }
            if depth < 3 {
                w[1] = 4; // conde
                w[2] = 2; // nested conjunction
                w[3] = 3; // fresh
                if !self.in_closure {
                    w[4] = 1; // closure
                }
                w[7] = 1; // for over constants
            }
            match self.s.weighted(&w) {
                0 => out.push(self.atomic(scope)),
                1 => {
                    self.kinds_seen.insert("conde");
                    let k = 2 + self.s.below(2);
                    let mut clauses = vec![];
                    for _ in 0..k {
                        let mut sc = scope.clone();
                        // sometimes an empty clause `[]`
                        if self.s.flag(12) {
                            clauses.push(vec![]);
                        } else {
                            clauses.push(self.goals(&mut sc, depth + 1, 1));
                        }
                    }
                    if clauses.iter().any(|c| c.len() > 1) {
                        self.kinds_seen.insert("conjunction-in-operator");
                    }
                    out.push(Goal::Conde(clauses));
                }
                2 => {
                    self.kinds_seen.insert("conjunction");
                    let mut sc = scope.clone();
                    let b = self.goals(&mut sc, depth + 1, 1);
                    out.push(Goal::Conj(b));
                }
                3 => {
                    self.kinds_seen.insert("fresh");
                    let k = self.s.below(3); // `|| { }` allowed
                    let vs: Vec<VarId> = (0..k).map(|_| self.fresh_id()).collect();
                    let mut sc = scope.clone();
                    sc.extend(vs.iter().copied());
                    let b = self.goals(&mut sc, depth + 1, 1);
                    out.push(Goal::Fresh(vs, b));
                }
                4 => {
                    self.kinds_seen.insert("closure");
                    let mut sc = scope.clone();
                    self.in_closure = true;
                    let b = self.goals(&mut sc, depth + 1, 1);
                    self.in_closure = false;
                    // everything the closure mentions is moved into it
                    for v in Self::mentioned(&b) {
                        self.moved.insert(v);
                    }
                    out.push(Goal::Closure(b));
                }
                5 => out.push(self.call(scope)),
                6 => {
                    self.kinds_seen.insert("true/false");
                    out.push(if self.s.flag(200) { Goal::Succeed } else { Goal::Fail });
                }
                8 => {
                    // dfs { cond { … }, |z| { … } }: disjunctions inside are printed as `cond`
                    self.kinds_seen.insert("dfs-block");
                    let mut sc = scope.clone();
                    let b = self.goals(&mut sc, depth + 1, 1);
                    out.push(Goal::Dfs(b));
                }
                _ => {
                    // for x in &coll { body over x and constants only }
                    self.kinds_seen.insert("for");
                    let x = self.fresh_id();
                    let n = self.s.below(4);
                    let coll: Vec<Term> = (0..n).map(|_| if self.s.flag(128) { Term::Int(self.s.below(4) as i64) } else { Term::list(vec![Term::Int(self.s.below(3) as i64)]) }).collect();
                    let was = self.in_for;
                    self.in_for = true;
                    let nb = 1 + self.s.below(2);
                    let mut body = vec![];
                    for _ in 0..nb {
                        let xv = Term::Var(x);
                        body.push(match self.s.below(3) {
                            0 => Goal::Diseq(xv, Term::Int(self.s.below(4) as i64)),
                            1 => Goal::Call(Rel::Member, vec![xv, Term::list(vec![Term::Int(0), Term::Int(1), Term::Int(2), Term::list(vec![Term::Int(1)])])]),
                            _ => Goal::Conde(vec![vec![Goal::Eq(xv.clone(), Term::Int(self.s.below(4) as i64))], vec![Goal::Diseq(xv, Term::Int(1))]]),
                        });
                    }
                    self.in_for = was;
                    out.push(Goal::For(x, coll, body));
                }
            }
        }
        out
    }
}

/// C14: the clause grammar. Query variables get pairwise different bindings at the end so that
/// a mix-up of the reporting order is visible.
pub fn gen_c14(s: &mut Source) -> (Program, Names, Vec<&'static str>) {
    let nq = 1 + s.below(3);
    let mut g = SurfGen::new(s, nq as VarId);
    g.goals_left = 9;
    // query variable names: often not in alphabetical order of declaration
    if g.s.flag(150) {
        let pool = ["zq", "mq", "aq"];
        let perm = g.s.permutation(3);
        for i in 0..nq {
            g.names.names.insert(i as VarId, format!("{}{}", pool[perm[i]], i));
        }
        g.kinds_seen.insert("query-variable-names-not-alphabetical");
    }
    g.names.cond_everywhere = g.s.flag(60);
    g.names.isize_suffix = g.s.flag(60);
    g.names.lterm_args = g.s.flag(90);
    g.names.spellings = g.s.flag(100);
    let mut scope: Vec<VarId> = (0..nq as VarId).collect();
    let mut body = g.goals(&mut scope, 0, 1);
    // distinguishing tail: q_i == marker_i for the query variables that are not moved, inside a
    // conde with `true` so that the program does not become unsatisfiable by it
    let mut marks = vec![];
    for i in 0..nq as VarId {
        if !g.moved.contains(&i) {
            marks.push(Goal::Eq(Term::Var(i), Term::Int(100 + i as i64)));
        }
    }
    if !marks.is_empty() {
        body.push(Goal::Conde(vec![marks, vec![Goal::Succeed]]));
    }
    // `loop { … }` / `always()` as a prefix: an infinite stream whose first answers are checked
    if g.s.flag(20) {
        g.kinds_seen.insert("loop-prefix");
        let pre = if g.s.flag(128) { Goal::Always } else { Goal::Anyo(vec![Goal::Call(Rel::Member, vec![Term::Var(0), Term::ints(&[1, 2])])]) };
        body.insert(0, pre);
    }
    let kinds: Vec<&'static str> = g.kinds_seen.iter().copied().collect();
    (Program { nq, body }, g.names, kinds)
}

/// pattern for a match arm over variables that are all new (pattern variables)
fn gen_pattern(g: &mut SurfGen, pvars: &mut Vec<VarId>, depth: usize) -> Term {
    let mut pv = |g: &mut SurfGen, pvars: &mut Vec<VarId>| -> Term {
        // repeat an earlier pattern variable of this alternative sometimes
        if !pvars.is_empty() && g.s.flag(60) {
            g.kinds_seen.insert("repeated-pattern-variable");
            return Term::Var(pvars[g.s.below(pvars.len())]);
        }
        let v = g.fresh_id();
        pvars.push(v);
        Term::Var(v)
    };
    let mut w = [3u32, 1, 3, 1, 4, 3, 2];
    if depth == 0 {
        // a lone `_` as the whole pattern of an arm (catch-all without a binding)
        w[3] = 3;
    }
    if depth >= 2 {
        w[4] = 0;
        w[5] = 0;
    }
    if depth >= 1 {
        // compound patterns are not tree-terms: only at the top of a pattern
        w[6] = 0;
    }
    match g.s.weighted(&w) {
        0 => g.literal(),
        1 => Term::Nil,
        2 => pv(g, pvars),
        3 => {
            let v = g.fresh_id();
            g.names.wild.insert(v);
            g.kinds_seen.insert("wildcard-pattern");
            Term::Var(v)
        }
        4 => {
            let n = 1 + g.s.below(3);
            let items: Vec<Term> = (0..n).map(|_| gen_pattern(g, pvars, depth + 1)).collect();
            Term::list(items)
        }
        5 => {
            g.kinds_seen.insert("improper-pattern");
            let n = 1 + g.s.below(2);
            let items: Vec<Term> = (0..n).map(|_| gen_pattern(g, pvars, depth + 1)).collect();
            let tail = if g.s.flag(200) { pv(g, pvars) } else { gen_pattern(g, pvars, 2) };
            Term::improper(items, tail)
        }
        _ => {
            g.kinds_seen.insert("compound-pattern");
            let k = [Kind::Pair, Kind::Rec, Kind::Triple][g.s.below(3)];
            let args: Vec<Term> = (0..k.arity()).map(|_| gen_pattern(g, pvars, 2)).collect();
            Term::Cmp(k, args)
        }
    }
}

/// C13: match / matche / matcha / matchu
pub fn gen_c13(s: &mut Source) -> (Program, Names, Vec<&'static str>) {
    let nq = 2 + s.below(2);
    let mut g = SurfGen::new(s, nq as VarId);
    g.allow_wild = false;
    let scope: Vec<VarId> = (0..nq as VarId).collect();
    let mut body = vec![];
    // something to match on
    if g.s.flag(200) {
        let t = match g.s.below(6) {
            0 => g.literal(),
            1 => Term::Nil,
            2 => Term::list(vec![g.var_or_lit(&scope[1..]), g.literal()]),
            3 => Term::improper(vec![g.literal()], Term::Var(scope[1])),
            4 => Term::Cmp(Kind::Pair, vec![g.var_or_lit(&scope[1..]), g.literal()]),
            _ => Term::list(vec![g.literal(), Term::list(vec![g.var_or_lit(&scope[1..])]), Term::Int(2)]),
        };
        body.push(Goal::Eq(Term::Var(0), t));
    }
    let kind = match g.s.weighted(&[4, 3, 2, 2]) {
        0 => MatchKind::Match,
        1 => MatchKind::Matche,
        2 => MatchKind::Matcha,
        _ => MatchKind::Matchu,
    };
    let narms = 1 + g.s.below(4);
    let mut arms = vec![];
    // names available for shadowing: the query variable names
    for _ in 0..narms {
        let nalt = 1 + g.s.weighted(&[5, 2, 1]);
        let mut patterns = vec![];
        let mut all_pvars: Vec<Vec<VarId>> = vec![];
        for _ in 0..nalt {
            let mut pvars = vec![];
            patterns.push(gen_pattern(&mut g, &mut pvars, 0));
            all_pvars.push(pvars);
        }
        if nalt > 1 {
            g.kinds_seen.insert("alternatives");
        }
        // body: refers to outer variables, and to pattern variables only when there is a single
        // alternative (with alternatives the names would have to exist in every alternative)
        let mut bscope: Vec<VarId> = scope.clone();
        let mut shadowed: Vec<VarId> = vec![];
        if nalt == 1 {
            // shadowing: give a pattern variable the name of an outer variable; the body then
            // cannot refer to that outer variable any more
            for pvr in all_pvars[0].clone() {
                if g.s.flag(50) {
                    let outer = scope[g.s.below(scope.len())];
                    if !shadowed.contains(&outer) {
                        let oname = g.names.name(outer, nq);
                        if !g.names.names.values().any(|n| *n == oname) || true {
                            g.names.names.insert(pvr, oname);
                            shadowed.push(outer);
                            g.kinds_seen.insert("pattern-variable-shadows-outer");
                        }
                    }
                }
            }
            bscope.retain(|v| !shadowed.contains(v));
            bscope.extend(all_pvars[0].iter().copied());
        }
        let nb = g.s.weighted(&[2, 4, 2]);
        let mut abody = vec![];
        for _ in 0..nb {
            if bscope.is_empty() {
                break;
            }
            let l = Term::Var(bscope[g.s.below(bscope.len())]);
            // a goal with several answers, or one that fails outright, as (first) body goal:
            // for matcha / matchu it matters which goal of an arm is its committed head
            if g.s.flag(50) {
                let (a, b) = (g.literal(), g.literal());
                abody.push(Goal::Call(Rel::Member, vec![l, Term::list(vec![a, b])]));
                g.kinds_seen.insert("arm-body-with-several-answers");
                continue;
            }
            if g.s.flag(16) {
                abody.push(Goal::Fail);
                g.kinds_seen.insert("arm-body-fails");
                continue;
            }
            let r = if g.s.flag(128) { Term::Var(bscope[g.s.below(bscope.len())]) } else { g.tree_term(&bscope, 1) };
            abody.push(if g.s.flag(40) { Goal::Diseq(l, r) } else { Goal::Eq(l, r) });
        }
        if abody.is_empty() {
            g.kinds_seen.insert("empty-arm-body");
        }
        arms.push(Arm { patterns, body: abody });
    }
    // A pair of adjacent arms with textually identical bodies (printed as `pA | pB => body`): in
    // the first the body name is a pattern variable that shadows an outer variable, in the second
    // the pattern does not bind that name, so the same text denotes the outer variable.
    if g.s.flag(90) && scope.len() >= 2 {
        let outer = scope[1 + g.s.below(scope.len() - 1)];
        let oname = g.names.name(outer, nq);
        let pv = g.fresh_id();
        g.names.names.insert(pv, oname);
        let lit = Term::Int(g.s.below(3) as i64);
        let pat_a = if g.s.flag(128) { Term::list(vec![Term::Var(pv), lit.clone()]) } else { Term::cons(Term::Var(pv), Term::Nil) };
        let pat_b = match g.s.below(3) {
            0 => Term::Nil,
            1 => lit.clone(),
            _ => Term::list(vec![lit.clone(), lit.clone(), lit.clone()]),
        };
        let mark = Term::Int(5 + g.s.below(3) as i64);
        let body_for = |v: VarId| vec![Goal::Eq(Term::Var(v), mark.clone())];
        let pair = vec![Arm { patterns: vec![pat_a], body: body_for(pv) }, Arm { patterns: vec![pat_b], body: body_for(outer) }];
        let at = g.s.below(arms.len() + 1);
        let (first, second) = if g.s.flag(128) { (0, 1) } else { (1, 0) };
        arms.insert(at, pair[first].clone());
        arms.insert(at + 1, pair[second].clone());
        g.kinds_seen.insert("alternatives-binding-different-names");
        g.kinds_seen.insert("alternatives");
        g.kinds_seen.insert("pattern-variable-shadows-outer");
    }
    // the matched term: a query variable, or a list of two
    // (also list literals that mention variables only at nesting depth >= 2)
    let matched = match g.s.weighted(&[9, 3, 1, 1, 1]) {
        0 => Term::Var(0),
        1 => Term::list(vec![Term::Var(0), Term::Var(1)]),
        2 => Term::list(vec![Term::list(vec![Term::Var(0)]), Term::Var(1)]),
        3 => Term::list(vec![Term::Var(1), Term::list(vec![Term::Var(0), Term::Int(1)])]),
        _ => Term::list(vec![Term::list(vec![Term::list(vec![Term::Var(1)])]), Term::Var(0)]),
    };
    if !matches!(matched, Term::Var(_)) {
        g.kinds_seen.insert("matched-term-is-a-list-literal");
    }
    // with weight 0.6 make a match likely: bind the matched term to an instance of one of the
    // patterns (pattern variables replaced by outer variables / literals), as the first goal
    if g.s.flag(154) && !arms.is_empty() {
        let a = &arms[g.s.below(arms.len())];
        let pat = a.patterns[g.s.below(a.patterns.len())].clone();
        let fill: Vec<Term> = vec![Term::Var(scope[scope.len() - 1]), Term::Int(1), Term::list(vec![Term::Int(2)]), Term::Nil];
        let inst = pat.map_vars(&mut |v| fill[(v as usize) % fill.len()].clone());
        // a named-field constructor is not accepted in `==` position (only as a pattern)
        if !matches!(inst, Term::Cmp(Kind::Rec, _)) {
            body.insert(0, Goal::Eq(matched.clone(), inst));
            g.kinds_seen.insert("matched-term-is-pattern-instance");
        }
    }
    body.push(Goal::Match(kind, matched, arms));
    g.kinds_seen.insert(match kind {
        MatchKind::Match => "match",
        MatchKind::Matche => "matche",
        MatchKind::Matcha => "matcha",
        MatchKind::Matchu => "matchu",
    });
    let kinds: Vec<&'static str> = g.kinds_seen.iter().copied().collect();
    (Program { nq, body }, g.names, kinds)
}

/// C15: the same display name bound in nested and sibling scopes.
pub fn gen_c15(s: &mut Source) -> (Program, Names, Vec<&'static str>) {
    let nq = 1 + s.below(2);
    let mut g = SurfGen::new(s, nq as VarId);
    g.allow_wild = false;
    g.goals_left = 12;
    let pool = ["x", "y", "q0"]; // q0 is also the first query variable's name
    struct Ctx<'p> {
        pool: &'p [&'static str],
    }
    fn scope_goals(g: &mut SurfGen, cx: &Ctx, visible: &Vec<(String, VarId)>, depth: usize, nq: usize) -> Vec<Goal> {
        // `visible`: innermost binding per name
        let mut out = vec![];
        let n = 1 + g.s.below(3);
        for _ in 0..n {
            if g.goals_left == 0 {
                break;
            }
            g.goals_left -= 1;
            let ids: Vec<VarId> = visible.iter().map(|(_, v)| *v).filter(|v| !g.moved.contains(v)).collect();
            let mut w = [6u32, 0, 0, 0, 3, 2];
            if depth < 3 {
                w[1] = 5; // fresh with reused names
                w[2] = 3; // conde with sibling scopes
                if !g.in_closure {
                    w[3] = 1; // closure
                }
            }
            match g.s.weighted(&w) {
                0 => {
                    if ids.is_empty() {
                        out.push(Goal::Succeed);
                        continue;
                    }
                    let l = Term::Var(ids[g.s.below(ids.len())]);
                    let r = match g.s.below(3) {
                        0 => Term::Var(ids[g.s.below(ids.len())]),
                        1 => Term::Int(g.s.below(4) as i64),
                        _ => Term::list(vec![Term::Var(ids[g.s.below(ids.len())]), Term::Int(g.s.below(3) as i64)]),
                    };
                    out.push(if g.s.flag(50) { Goal::Diseq(l, r) } else { Goal::Eq(l, r) });
                }
                1 => {
                    let k = 1 + g.s.below(2);
                    let mut vis = visible.clone();
                    let mut vs = vec![];
                    for _ in 0..k {
                        let name = cx.pool[g.s.below(cx.pool.len())].to_string();
                        if vs.iter().any(|v: &VarId| g.names.names.get(v) == Some(&name)) {
                            continue; // the same name twice in one binder list is not generated
                        }
                        let v = g.fresh_id();
                        g.names.names.insert(v, name.clone());
                        if vis.iter().any(|(n, _)| *n == name) {
                            g.kinds_seen.insert("name-shadows-outer-binding");
                        }
                        vis.retain(|(n, _)| *n != name);
                        vis.push((name, v));
                        vs.push(v);
                    }
                    let b = scope_goals(g, cx, &vis, depth + 1, nq);
                    out.push(Goal::Fresh(vs, b));
                }
                2 => {
                    g.kinds_seen.insert("sibling-scopes");
                    let k = 2 + g.s.below(2);
                    let cl: Vec<Vec<Goal>> = (0..k).map(|_| scope_goals(g, cx, visible, depth + 1, nq)).collect();
                    out.push(Goal::Conde(cl));
                }
                3 => {
                    g.kinds_seen.insert("closure-scope");
                    g.in_closure = true;
                    let b = scope_goals(g, cx, visible, depth + 1, nq);
                    g.in_closure = false;
                    let mut m = vec![];
                    for x in &b {
                        x.visit_vars(&mut |v| m.push(v));
                    }
                    for v in m {
                        g.moved.insert(v);
                    }
                    out.push(Goal::Closure(b));
                }
                4 => {
                    // recursive relations that create a fresh variable per unfolding
                    g.kinds_seen.insert("recursive-relation-with-fresh-variables");
                    if ids.is_empty() {
                        continue;
                    }
                    let v = Term::Var(ids[g.s.below(ids.len())]);
                    let n = 1 + g.s.below(3);
                    out.push(match g.s.below(3) {
                        0 => Goal::Call(Rel::LenLe, vec![v, Term::list(vec![Term::Int(1); n])]),
                        1 => Goal::Call(Rel::Downfrom, vec![Term::list(vec![Term::Int(1); n]), v]),
                        _ => Goal::Call(Rel::Append, vec![v.clone(), Term::Var(ids[g.s.below(ids.len())]), Term::list((0..n).map(|i| Term::Int(i as i64)).collect())]),
                    });
                }
                _ => {
                    // match arms with the same pattern variable names in every arm
                    g.kinds_seen.insert("same-pattern-names-across-arms");
                    if ids.is_empty() {
                        continue;
                    }
                    let t = ids[g.s.below(ids.len())];
                    let mut arms = vec![];
                    // sometimes the tail pattern variable takes the name of the matched variable
                    // itself (the pattern shadows the scrutinee, as in `match l { [_ | l] => .. }`)
                    let shadow_scrutinee = g.s.flag(128);
                    let tname = if shadow_scrutinee { g.names.name(t, nq) } else { "t".to_string() };
                    if shadow_scrutinee {
                        g.kinds_seen.insert("pattern-variable-shadows-matched-term");
                        g.kinds_seen.insert("name-shadows-outer-binding");
                    }
                    for _ in 0..2 {
                        let (a, b) = (g.fresh_id(), g.fresh_id());
                        g.names.names.insert(a, "h".to_string());
                        g.names.names.insert(b, tname.clone());
                        // list patterns, or a compound pattern whose argument variables are typed
                        // pattern variables (declared by the expansion in their own way)
                        let pat = match g.s.weighted(&[4, 4, 2]) {
                            0 => Term::cons(Term::Var(a), Term::Var(b)),
                            1 => Term::list(vec![Term::Var(a), Term::Var(b)]),
                            _ => {
                                g.kinds_seen.insert("compound-pattern");
                                Term::Cmp(Kind::Pair, vec![Term::Var(a), Term::Var(b)])
                            }
                        };
                        // body uses the pattern variables and an outer variable that is not the
                        // matched one and is not named h / t
                        let others: Vec<VarId> = ids.iter().copied().filter(|v| *v != t).collect();
                        let mut body = vec![];
                        if let Some(o) = others.first() {
                            body.push(Goal::Eq(Term::Var(*o), Term::list(vec![Term::Var(b), Term::Var(a)])));
                        } else {
                            body.push(Goal::Diseq(Term::Var(a), Term::Var(b)));
                        }
                        arms.push(Arm { patterns: vec![pat], body });
                    }
                    // an arm with two alternatives of which only the second binds a name that is
                    // also the name of an outer variable: in that alternative the name must denote
                    // a new variable, not the outer one (the body mentions neither)
                    let others: Vec<VarId> = ids.iter().copied().filter(|v| *v != t).collect();
                    if g.s.flag(110) && !others.is_empty() {
                        let o2 = others[g.s.below(others.len())];
                        let oname = g.names.name(o2, nq);
                        if oname != "h" && oname != tname {
                            let (a1, a2, b2) = (g.fresh_id(), g.fresh_id(), g.fresh_id());
                            g.names.names.insert(a1, "h".to_string());
                            g.names.names.insert(a2, "h".to_string());
                            g.names.names.insert(b2, oname);
                            let p1 = Term::list(vec![Term::Var(a1)]);
                            let p2 = if g.s.flag(128) { Term::list(vec![Term::Var(a2), Term::Var(b2)]) } else { Term::list(vec![Term::Var(b2), Term::Var(a2), Term::Int(1)]) };
                            let body: Vec<Goal> = match others.iter().find(|v| **v != o2) {
                                Some(o1) if g.s.flag(128) => vec![Goal::Eq(Term::Var(*o1), Term::Int(5))],
                                _ => vec![],
                            };
                            let arm = Arm { patterns: if g.s.flag(200) { vec![p1, p2] } else { vec![p2, p1] }, body };
                            let at = g.s.below(arms.len() + 1);
                            arms.insert(at, arm);
                            g.kinds_seen.insert("alternative-binds-a-name-of-an-outer-variable");
                            g.kinds_seen.insert("name-shadows-outer-binding");
                        }
                    }
                    out.push(Goal::Match(MatchKind::Match, Term::Var(t), arms));
                }
            }
        }
        out
    }
    let cx = Ctx { pool: &pool };
    let visible: Vec<(String, VarId)> = (0..nq as VarId).map(|v| (g.names.name(v, nq), v)).collect();
    let body = scope_goals(&mut g, &cx, &visible, 0, nq);
    let kinds: Vec<&'static str> = g.kinds_seen.iter().copied().collect();
    (Program { nq, body }, g.names, kinds)
}


/// C08: the C13 generator restricted to the committed-choice forms (a `match` / `matche` it
/// produced is turned into `matcha` / `matchu`): the macro expansion decides which goal of an arm
/// is its committed head.
pub fn gen_c13_committed(s: &mut Source) -> (Program, Names, Vec<&'static str>) {
    let (mut p, names, mut kinds) = gen_c13(s);
    let pick = p.body.len() % 2 == 0;
    for g in p.body.iter_mut() {
        if let Goal::Match(kind, _, _) = g {
            if matches!(kind, MatchKind::Match | MatchKind::Matche) {
                *kind = if pick { MatchKind::Matcha } else { MatchKind::Matchu };
            }
            kinds.retain(|k| !matches!(*k, "match" | "matche"));
            kinds.push(if *kind == MatchKind::Matcha { "matcha" } else { "matchu" });
        }
    }
    (p, names, kinds)
}
