//! Family S: search programs — nested disjunctions and conjunctions, fresh, closures, library
//! and harness relations on literal (proper) lists, so that every program has a finite search
//! tree by construction (recursive relations are only called with an argument whose list
//! spine is a literal), optionally with infinite producers / divergers for C06/C07/C09.

use crate::ast::{Goal, Program, Rel, Term, VarId};
use crate::source::Source;

#[derive(Clone, Debug)]
pub struct SearchCfg {
    pub nq_max: usize,
    pub max_goals: usize,
    pub diseq: bool,
    pub calls: bool,
    pub closures: bool,
    /// BFS-only operators allowed (conda/condu/onceo are handled by their own family)
    pub max_depth: usize,
    /// extra query variables after the generated ones, never mentioned by the generated body
    pub reserved_q: usize,
    pub fresh: bool,
}

impl SearchCfg {
    pub fn dfs() -> SearchCfg {
        SearchCfg { nq_max: 2, max_goals: 8, diseq: true, calls: true, closures: true, max_depth: 3, reserved_q: 0, fresh: true }
    }
}

pub struct SearchGen<'a, 'b> {
    pub s: &'a mut Source<'b>,
    pub cfg: SearchCfg,
    pub next_var: VarId,
    pub goals_left: usize,
}

fn nat(n: usize) -> Term {
    Term::list(vec![Term::Int(1); n])
}

impl<'a, 'b> SearchGen<'a, 'b> {
    fn var(&mut self, scope: &[VarId]) -> Term {
        Term::Var(scope[self.s.below(scope.len())])
    }

    fn atom(&mut self) -> Term {
        Term::Int(self.s.below(4) as i64)
    }

    fn elem(&mut self, scope: &[VarId]) -> Term {
        if self.s.flag(70) {
            self.var(scope)
        } else {
            self.atom()
        }
    }

    /// a proper list literal whose elements are atoms or variables
    fn list_lit(&mut self, scope: &[VarId], max: usize) -> Term {
        let n = self.s.below(max + 1);
        Term::list((0..n).map(|_| self.elem(scope)).collect())
    }

    fn small_term(&mut self, scope: &[VarId]) -> Term {
        match self.s.weighted(&[4, 4, 2, 1]) {
            0 => self.atom(),
            1 => self.var(scope),
            2 => self.list_lit(scope, 2),
            _ => {
                let h = self.elem(scope);
                let t = self.var(scope);
                Term::cons(h, t)
            }
        }
    }

    fn atomic(&mut self, scope: &[VarId]) -> Goal {
        let l = if self.s.flag(170) { self.var(scope) } else { self.small_term(scope) };
        let r = self.small_term(scope);
        if self.cfg.diseq && self.s.flag(50) {
            Goal::Diseq(l, r)
        } else {
            Goal::Eq(l, r)
        }
    }

    fn call(&mut self, scope: &[VarId]) -> Goal {
        match self.s.weighted(&[6, 3, 2, 2, 1, 1, 1, 1, 1]) {
            0 => {
                let x = self.elem(scope);
                let l = self.list_lit(scope, 3);
                Goal::Call(Rel::Member, vec![x, l])
            }
            1 => {
                // all splits of a literal list
                let (a, b) = (self.var(scope), self.var(scope));
                let l = self.list_lit(scope, 3);
                Goal::Call(Rel::Append, vec![a, b, l])
            }
            2 => {
                let l1 = self.list_lit(scope, 2);
                let b = self.small_term(scope);
                let c = self.var(scope);
                Goal::Call(Rel::Append, vec![l1, b, c])
            }
            3 => {
                let x = self.elem(scope);
                let l = self.list_lit(scope, 3);
                Goal::Call(Rel::Member1, vec![x, l])
            }
            4 => {
                let x = self.elem(scope);
                let l = self.list_lit(scope, 3);
                let o = self.var(scope);
                Goal::Call(Rel::Rember, vec![x, l, o])
            }
            5 => {
                let n = self.s.below(4);
                let l = self.var(scope);
                Goal::Call(Rel::Downfrom, vec![nat(n), l])
            }
            6 => {
                let n = self.s.below(3);
                let l = self.var(scope);
                Goal::Call(Rel::LenLe, vec![l, nat(n)])
            }
            7 => {
                let l = self.list_lit(scope, 3);
                Goal::Call(Rel::Distinct, vec![l])
            }
            _ => {
                let l = self.list_lit(scope, 2);
                let o = self.var(scope);
                Goal::Call(Rel::Permute, vec![l, o])
            }
        }
    }

    pub fn goals(&mut self, scope: &mut Vec<VarId>, depth: usize, min: usize) -> Vec<Goal> {
        let mut out = vec![];
        let n = min + self.s.below(3);
        for _ in 0..n {
            if self.goals_left == 0 {
                break;
            }
            self.goals_left -= 1;
            let mut w = [8u32, 0, 0, 0, 0, 0, 2];
            if depth < self.cfg.max_depth {
                w[1] = 5; // disjunction
                w[2] = 1; // nested conjunction
                if self.cfg.fresh {
                    w[3] = 2; // fresh
                }
                if self.cfg.closures {
                    w[4] = 1;
                }
            }
            if self.cfg.calls {
                w[5] = 5;
            }
            match self.s.weighted(&w) {
                0 => out.push(self.atomic(scope)),
                1 => {
                    let k = 2 + self.s.below(2);
                    let mut clauses = vec![];
                    for _ in 0..k {
                        let mut sc = scope.clone();
                        if self.s.flag(14) {
                            clauses.push(vec![]); // the empty clause `[]`
                        } else {
                            clauses.push(self.goals(&mut sc, depth + 1, 1));
                        }
                    }
                    out.push(Goal::Conde(clauses));
                }
                2 => {
                    let mut sc = scope.clone();
                    let b = self.goals(&mut sc, depth + 1, 1);
                    out.push(Goal::Conj(b));
                }
                3 => {
                    let k = 1 + self.s.below(2);
                    let vs: Vec<VarId> = (0..k)
                        .map(|_| {
                            let v = self.next_var;
                            self.next_var += 1;
                            v
                        })
                        .collect();
                    let mut sc = scope.clone();
                    sc.extend(vs.iter().copied());
                    let b = self.goals(&mut sc, depth + 1, 1);
                    out.push(Goal::Fresh(vs, b));
                }
                4 => {
                    let mut sc = scope.clone();
                    let b = self.goals(&mut sc, depth + 1, 1);
                    out.push(Goal::Closure(b.clone()));
                    if self.s.flag(64) {
                        // the same closure used twice in a row: the builder then uses ONE goal
                        // object twice (clone), as a program that keeps a goal in a Rust variable
                        // does; every evaluation of a closure must build its body anew
                        out.push(Goal::Closure(b));
                    }
                }
                6 => {
                    // literal `true` / `false` leaves: goals that are folded statically
                    // (Conj::new, Stream::bind) and streams that are mature at once
                    out.push(if self.s.flag(150) { Goal::Succeed } else { Goal::Fail });
                }
                _ => out.push(self.call(scope)),
            }
        }
        if out.is_empty() {
            out.push(self.atomic(scope));
        }
        out
    }
}

pub fn gen_program(s: &mut Source, cfg: &SearchCfg) -> Program {
    let nq = 1 + s.below(cfg.nq_max);
    let total = nq + cfg.reserved_q;
    let mut g = SearchGen { s, cfg: cfg.clone(), next_var: total as VarId, goals_left: cfg.max_goals };
    let mut scope: Vec<VarId> = (0..nq as VarId).collect();
    let body = g.goals(&mut scope, 0, 1);
    Program { nq: total, body }
}

// ---- infinite producers, divergers (C06 infinite part, C07, C09) --------------------------

#[derive(Clone, Debug, PartialEq, Eq)]
pub enum BranchKind {
    Finite,
    Producer,
    Diverger,
}

/// A branch goal over the query variable `q` together with its kind.
pub fn gen_branch(s: &mut Source, q: VarId, marker: i64, next_var: &mut VarId) -> (Vec<Goal>, BranchKind) {
    let qv = Term::Var(q);
    match s.weighted(&[4, 2, 2, 2, 2, 2, 1, 1, 1, 1, 1, 1]) {
        // depth-first blocks as branches of an interleaving disjunction
        9 => match s.below(3) {
            0 => (vec![Goal::Dfs(vec![Goal::Call(Rel::Diverge, vec![])])], BranchKind::Diverger),
            // a depth-first disjunction whose first clause searches for ever without an answer
            1 => (vec![Goal::Dfs(vec![Goal::Conde(vec![vec![Goal::Call(Rel::Diverge, vec![])], vec![Goal::Eq(qv, Term::Int(marker))]])])], BranchKind::Diverger),
            // ... or whose second clause does: one answer, then silence
            _ => (vec![Goal::Dfs(vec![Goal::Conde(vec![vec![Goal::Eq(qv, Term::Int(marker))], vec![Goal::Call(Rel::Diverge, vec![])]])])], BranchKind::Diverger),
        },
        10 => (vec![Goal::Dfs(vec![Goal::Call(Rel::Member, vec![qv, Term::ints(&[marker, marker + 100])])])], BranchKind::Finite),
        11 => {
            // a diverger that recurses only through fresh / closure (no conde, no Delay)
            let v = *next_var;
            *next_var += 1;
            (vec![Goal::Fresh(vec![v], vec![Goal::Closure(vec![Goal::Call(Rel::Diverge, vec![])])])], BranchKind::Diverger)
        }
        0 => (vec![Goal::Eq(qv, Term::Int(marker))], BranchKind::Finite),
        1 => (
            vec![Goal::Call(Rel::Member, vec![qv, Term::ints(&[marker, marker + 100])])],
            BranchKind::Finite,
        ),
        2 => (vec![Goal::Anyo(vec![Goal::Eq(qv, Term::Int(marker))])], BranchKind::Producer),
        3 => (vec![Goal::Always, Goal::Eq(qv, Term::Int(marker))], BranchKind::Producer),
        4 => {
            // nat(x), q == marker: infinitely many answers through a recursive relation; x stays
            // hidden so that the answers do not grow (with growing answers an unfair scheduler
            // makes the run spend its time reifying them, where the step budget cannot stop it)
            let x = *next_var;
            *next_var += 1;
            (
                vec![Goal::Fresh(vec![x], vec![Goal::Call(Rel::Nat, vec![Term::Var(x)]), Goal::Eq(qv, Term::Int(marker))])],
                BranchKind::Producer,
            )
        }
        5 => (vec![Goal::Never], BranchKind::Diverger),
        6 => (vec![Goal::Anyo(vec![Goal::Fail])], BranchKind::Diverger),
        7 => (vec![Goal::Call(Rel::Diverge, vec![])], BranchKind::Diverger),
        _ => (vec![Goal::Eq(qv.clone(), Term::Int(marker)), Goal::Never], BranchKind::Diverger),
    }
}
