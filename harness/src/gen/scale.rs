//! Size scaling shared by the `scale` families.
//!
//! The ordinary families keep every size small (lists of ≤3-4 elements, ≤5 variables, ≤10 goals)
//! so that the case count can be large. Nothing in the library imposes those limits, so every
//! property also has a family in which ONE dimension of the case (list length, nesting depth,
//! number of variables in a chain, number of stored constraints, clauses of a disjunction, width
//! of a finite domain, recursion depth of a relation, ...) is drawn from a heavy-tailed
//! distribution up to a cap of several hundred (quick) or several thousand (thorough), while the
//! rest of the case stays small. The caps are not tuned to any particular threshold.

use crate::ast::{Kind, Term, VarId};
use crate::source::Source;

/// Heavy-tailed size in `1..=cap`; 1 for zero bytes. Roughly: 30 % ≤ 8, 30 % ≤ 40, 20 % ≤ 160,
/// 20 % uniform up to the cap.
pub fn size(s: &mut Source, cap: usize) -> usize {
    let cap = cap.max(1);
    match s.weighted(&[3, 3, 2, 2]) {
        0 => 1 + s.below(8.min(cap)),
        1 => 1 + s.below(40.min(cap)),
        2 => 1 + s.below(160.min(cap)),
        _ => 1 + s.below(cap),
    }
}

/// The cap of the scaled dimension for a tier.
pub fn cap(thorough: bool) -> usize {
    if thorough {
        1000
    } else {
        400
    }
}

#[derive(Clone, Copy, Debug, PartialEq, Eq)]
pub enum Spine {
    /// proper list of n elements
    List,
    /// n elements and a non-list tail
    Improper,
    /// `["s", ["s", ... end]]`, n levels (successor-style nesting through the second element)
    Succ,
    /// `Pair(e0, Pair(e1, ... end))`, n levels
    PairRight,
    /// `[[[... end ...], e1], e0]`: nesting through the head, n levels
    HeadNest,
    /// `Node(e, [], Node(e, [], ... end))`
    NodeRight,
}

pub const SPINES: [Spine; 6] = [Spine::List, Spine::Improper, Spine::Succ, Spine::PairRight, Spine::HeadNest, Spine::NodeRight];

/// A term whose spine has `n` levels; `elem(i)` gives the element at level i and `end` closes
/// the spine (ignored for `List`, which ends in `[]`).
pub fn big_term(shape: Spine, n: usize, elem: &mut dyn FnMut(usize) -> Term, end: Term) -> Term {
    match shape {
        Spine::List => Term::list((0..n).map(|i| elem(i)).collect()),
        Spine::Improper => Term::improper((0..n).map(|i| elem(i)).collect(), end),
        Spine::Succ => {
            let mut t = end;
            for _ in 0..n {
                t = Term::list(vec![Term::Str("s".into()), t]);
            }
            t
        }
        Spine::PairRight => {
            let mut t = end;
            for i in (0..n).rev() {
                t = Term::Cmp(Kind::Pair, vec![elem(i), t]);
            }
            t
        }
        Spine::HeadNest => {
            let mut t = end;
            for i in (0..n).rev() {
                t = Term::list(vec![t, elem(i)]);
            }
            t
        }
        Spine::NodeRight => {
            let mut t = end;
            for i in (0..n).rev() {
                t = Term::Cmp(Kind::Node, vec![elem(i), Term::Nil, t]);
            }
            t
        }
    }
}

/// Element table for a long spine: a cheap filler (`i mod 3`) with up to `k` decorated positions
/// (variables / other atoms) chosen by the source. Returns the table.
pub fn elements(s: &mut Source, n: usize, vars: &[VarId], k: usize) -> Vec<Term> {
    let mut v: Vec<Term> = (0..n).map(|i| Term::Int((i % 3) as i64)).collect();
    if n == 0 {
        return v;
    }
    let deco = s.below(k + 1);
    for _ in 0..deco {
        let pos = s.below(n);
        v[pos] = match s.weighted(&[4, 1, 1, 1]) {
            0 if !vars.is_empty() => Term::Var(vars[s.below(vars.len())]),
            1 => Term::Nil,
            2 => Term::list(vec![Term::Int(7)]),
            _ => Term::Int(9),
        };
    }
    v
}

// ---------------------------------------------------------------------------------------------
// search programs with one large dimension (C04-C10)

use crate::ast::{Goal, Program, Rel};

fn unary(n: usize) -> Term {
    Term::list(vec![Term::Int(1); n])
}

/// A search program with a finite search tree in which one dimension is large: the number of
/// clauses of one disjunction, the number of consecutive binary choice points, or the length of
/// the literal list a recursive relation walks. `reserved_q` extra query variables are appended
/// (never mentioned). The answer count stays ≤ cap + a small factor.
pub fn small_cond(s: &mut Source, v: &Term) -> Goal {
    match s.weighted(&[3, 2, 2]) {
        0 => Goal::Conde(vec![vec![Goal::Eq(v.clone(), Term::Int(0))], vec![Goal::Eq(v.clone(), Term::Int(1))]]),
        1 => Goal::Call(Rel::Member, vec![v.clone(), Term::ints(&[0, 1, 2])]),
        _ => Goal::Conde(vec![vec![Goal::Eq(v.clone(), Term::Int(0))], vec![Goal::Fail], vec![Goal::Eq(v.clone(), Term::Int(2))]]),
    }
}

/// One goal over the variables `q` and `r` (ids 0 and 1) with one large dimension; fresh
/// variables are numbered from `*next_var`.
pub fn big_goal(s: &mut Source, thorough: bool, next_var: &mut VarId) -> Goal {
    big_goal_opts(s, thorough, next_var, true)
}

/// `allow_chain = false` leaves out the chain of binary choice points (whose search tree is
/// only small while the pruning constraints come first: not for reordering checks).
pub fn big_goal_opts(s: &mut Source, thorough: bool, next_var: &mut VarId, allow_chain: bool) -> Goal {
    let cap_n = cap(thorough);
    let (q, r) = (Term::Var(0), Term::Var(1));
    match s.weighted(&[4, if allow_chain { 3 } else { 0 }, 6]) {
        // one wide disjunction
        0 => {
            let n = size(s, cap_n);
            let mut clauses: Vec<Vec<Goal>> = (0..n).map(|i| vec![Goal::Eq(q.clone(), Term::Int(i as i64))]).collect();
            let deco = s.below(6);
            for _ in 0..deco {
                let pos = s.below(n);
                clauses[pos] = match s.weighted(&[2, 2, 2, 2, 1]) {
                    0 => vec![Goal::Fail],
                    1 => vec![Goal::Eq(q.clone(), Term::Int(pos as i64)), small_cond(s, &r)],
                    2 => vec![Goal::Call(Rel::Member, vec![q.clone(), Term::ints(&[1000 + pos as i64, 2000 + pos as i64])])],
                    3 => vec![Goal::Conde(vec![vec![Goal::Eq(q.clone(), Term::Int(3000 + pos as i64))], vec![Goal::Eq(q.clone(), Term::Int(4000 + pos as i64))]])],
                    _ => vec![],
                };
            }
            Goal::Conde(clauses)
        }
        // many consecutive binary choice points, all but a few decided by constraints
        1 => {
            let n = size(s, cap_n.min(200));
            let xs: Vec<VarId> = (0..n).map(|i| *next_var + i as VarId).collect();
            *next_var += n as VarId;
            let free: Vec<usize> = (0..s.below(4)).map(|_| s.below(n)).collect();
            let mut inner: Vec<Goal> = vec![];
            let prune_first = s.flag(170);
            let pruner = |i: usize| -> Goal {
                if i % 3 == 0 {
                    Goal::Eq(Term::Var(xs[i]), Term::Int((i % 2) as i64))
                } else {
                    Goal::Diseq(Term::Var(xs[i]), Term::Int((i % 2) as i64))
                }
            };
            if prune_first {
                for i in 0..n {
                    if !free.contains(&i) {
                        inner.push(pruner(i));
                    }
                }
            }
            for i in 0..n {
                inner.push(Goal::Conde(vec![vec![Goal::Eq(Term::Var(xs[i]), Term::Int(0))], vec![Goal::Eq(Term::Var(xs[i]), Term::Int(1))]]));
                if !prune_first && !free.contains(&i) {
                    inner.push(pruner(i));
                }
            }
            let shown: Vec<Term> = free.iter().map(|i| Term::Var(xs[*i])).chain([Term::Var(xs[n - 1]), Term::Var(xs[0])]).collect();
            inner.push(Goal::Eq(q.clone(), Term::list(shown)));
            Goal::Fresh(xs, inner)
        }
        // a recursive relation walking a long literal list
        _ => {
            let which = s.weighted(&[3, 3, 2, 3, 2, 1, 1, 1, 2]);
            let lim = match which {
                2 => 150,
                5 | 6 => 100,
                7 => 60,
                8 => 110,
                _ => cap_n,
            };
            let n = size(s, lim.min(cap_n));
            let vars = [0 as VarId, 1];
            let el = elements(s, n, &vars, 2);
            let lit = Term::list(el.clone());
            match which {
                0 => Goal::Call(Rel::Member, vec![q.clone(), lit]),
                1 => Goal::Call(Rel::MemberRev, vec![q.clone(), lit]),
                2 => Goal::Call(Rel::Append, vec![q.clone(), r.clone(), lit]),
                3 => {
                    // zeros over a list of zeros, possibly with a variable or a non-zero somewhere
                    let mut z: Vec<Term> = vec![Term::Int(0); n];
                    if s.flag(100) {
                        let pos = s.below(n);
                        z[pos] = if s.flag(128) { q.clone() } else { Term::Int(1) };
                    }
                    if s.flag(60) {
                        Goal::Call(Rel::Zeros, vec![Term::list(z)])
                    } else {
                        Goal::Conj(vec![Goal::Call(Rel::Zeros, vec![Term::list(z)]), Goal::Eq(r.clone(), Term::Int(n as i64))])
                    }
                }
                4 => {
                    let x = if s.flag(128) { q.clone() } else { Term::Int(1) };
                    Goal::Call(Rel::Member1, vec![x, lit])
                }
                5 => Goal::Call(Rel::LenLe, vec![q.clone(), unary(n)]),
                6 => Goal::Call(Rel::Rember, vec![Term::Int(1), lit, q.clone()]),
                7 => Goal::Call(Rel::Downfrom, vec![unary(n), q.clone()]),
                _ => Goal::Call(Rel::Nrev, vec![lit, q.clone()]),
            }
        }
    }
}

pub fn search_program(s: &mut Source, thorough: bool, reserved_q: usize) -> Program {
    search_program_opts(s, thorough, reserved_q, true)
}

pub fn search_program_opts(s: &mut Source, thorough: bool, reserved_q: usize, allow_chain: bool) -> Program {
    let nq = 2;
    let (q, r) = (Term::Var(0), Term::Var(1));
    let mut next_var: VarId = (nq + reserved_q) as VarId;
    let mut body: Vec<Goal> = vec![];
    let main = big_goal_opts(s, thorough, &mut next_var, allow_chain);
    // surroundings: nothing, a small choice before / after, or as one branch of a disjunction
    match s.weighted(&[3, 2, 2, 2]) {
        0 => body.push(main),
        1 => {
            body.push(small_cond(s, &r));
            body.push(main);
        }
        2 => {
            body.push(main);
            body.push(small_cond(s, &r));
        }
        _ => {
            let other = vec![Goal::Eq(q.clone(), Term::Int(-1)), small_cond(s, &r)];
            if s.flag(128) {
                body.push(Goal::Conde(vec![vec![main], other]));
            } else {
                body.push(Goal::Conde(vec![other, vec![main]]));
            }
        }
    }
    Program { nq: nq + reserved_q, body }
}
