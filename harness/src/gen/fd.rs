//! Family F: CLP(FD) programs.

use crate::ast::{FdGoal, Goal, Kind, Program, Term, VarId};
use crate::source::Source;

#[derive(Clone, Debug)]
pub struct FdCfg {
    pub max_vars: usize,
    pub max_constraints: usize,
    pub lo: i64,
    pub hi: i64,
    pub aliasing: bool,
    pub times: bool,
    pub eq: bool,
    pub shapes: bool,
    pub hidden: bool,
    /// now and then unify a finite-domain variable with a term that is not an integer (posted
    /// after every domain). Off for checks that reorder goals: a domain posted on a variable that
    /// is bound to a list applies to the list's elements, so the order matters by design.
    pub non_int_eq: bool,
}

impl FdCfg {
    pub fn full() -> FdCfg {
        FdCfg { max_vars: 4, max_constraints: 5, lo: -4, hi: 6, aliasing: true, times: true, eq: true, shapes: true, hidden: true, non_int_eq: false }
    }
}

#[derive(Clone, Debug, PartialEq, Eq)]
pub enum QueryShape {
    /// the query variables are the FD variables themselves
    Plain,
    /// one extra query variable bound to a list of FD variables
    List,
    /// one extra query variable bound to a compound of FD variables
    Compound,
}

#[derive(Clone, Debug)]
pub struct FdCase {
    /// FD variables are ids 0..nvars; the first `nvisible` are query variables
    pub nvars: usize,
    pub nvisible: usize,
    pub shape: QueryShape,
    /// the term the extra query variable is bound to (shape != Plain)
    pub shape_term: Option<Term>,
    /// goals in posting order (domains, constraints, equalities)
    pub goals: Vec<Goal>,
}

impl FdCase {
    pub fn program(&self) -> Program {
        let extra = if self.shape == QueryShape::Plain { 0 } else { 1 };
        // variable ids: FD variables keep their ids; visible ones must be query variables,
        // so renumber: visible 0..nvisible, extra = nvisible, hidden after that
        let nq = self.nvisible + extra;
        let map = |v: VarId| -> VarId {
            if (v as usize) < self.nvisible {
                v
            } else {
                v + extra as VarId
            }
        };
        let rn = |t: &Term| t.map_vars(&mut |v| Term::Var(map(v)));
        let mut body: Vec<Goal> = self.goals.iter().map(|g| rename_fd(g, &rn)).collect();
        if let Some(st) = &self.shape_term {
            body.push(Goal::Eq(Term::Var(self.nvisible as VarId), rn(st)));
        }
        let hidden: Vec<VarId> = (self.nvisible..self.nvars).map(|v| map(v as VarId)).collect();
        let body = if hidden.is_empty() { body } else { vec![Goal::Fresh(hidden, body)] };
        Program { nq, body }
    }
}

fn rename_fd(g: &Goal, rn: &dyn Fn(&Term) -> Term) -> Goal {
    match g {
        Goal::Eq(a, b) => Goal::Eq(rn(a), rn(b)),
        Goal::Fd(f) => Goal::Fd(match f {
            FdGoal::InFd(x, d) => FdGoal::InFd(rn(x), d.clone()),
            FdGoal::InFdRange(x, a, b) => FdGoal::InFdRange(rn(x), *a, *b),
            FdGoal::Lte(a, b) => FdGoal::Lte(rn(a), rn(b)),
            FdGoal::Lt(a, b) => FdGoal::Lt(rn(a), rn(b)),
            FdGoal::Plus(a, b, c) => FdGoal::Plus(rn(a), rn(b), rn(c)),
            FdGoal::Minus(a, b, c) => FdGoal::Minus(rn(a), rn(b), rn(c)),
            FdGoal::Times(a, b, c) => FdGoal::Times(rn(a), rn(b), rn(c)),
            FdGoal::Diseq(a, b) => FdGoal::Diseq(rn(a), rn(b)),
            FdGoal::Distinct(a) => FdGoal::Distinct(rn(a)),
        }),
        g => g.clone(),
    }
}

pub fn gen_case(s: &mut Source, cfg: &FdCfg) -> FdCase {
    let nvars = 1 + s.below(cfg.max_vars);
    let nhidden = if cfg.hidden && nvars > 1 && s.flag(60) { 1 + s.below(nvars - 1) } else { 0 };
    let nvisible = nvars - nhidden;
    let var = |s: &mut Source| Term::Var(s.below(nvars) as VarId);
    let operand = |s: &mut Source| -> Term {
        if s.flag(50) {
            Term::Int(s.range(cfg.lo, cfg.hi))
        } else {
            Term::Var(s.below(nvars) as VarId)
        }
    };
    // A witness assignment: with weight 0.7 domains and constraints are steered so that the
    // witness is a solution, which makes satisfiable (non-trivial) programs frequent.
    let steer = s.flag(180);
    let wit: Vec<i64> = (0..nvars).map(|_| s.range(cfg.lo, cfg.hi)).collect();
    // domains: each variable gets at least one; some get two; some are posted on lists
    let mut domain_goals = vec![];
    let dom = |s: &mut Source, x: Term| -> Goal {
        // values the domain must contain when steering
        let must: Vec<i64> = if steer {
            match &x {
                Term::Var(v) => vec![wit[*v as usize]],
                t => t.as_proper_list().map(|l| l.iter().filter_map(|e| if let Term::Var(v) = e { Some(wit[*v as usize]) } else { None }).collect()).unwrap_or_default(),
            }
        } else {
            vec![]
        };
        if s.flag(90) {
            let n = 1 + s.below(5);
            let mut vals: Vec<i64> = (0..n).map(|_| s.range(cfg.lo, cfg.hi)).collect();
            vals.extend(must.iter().copied());
            Goal::Fd(FdGoal::InFd(x, vals))
        } else {
            let mut a = s.range(cfg.lo, cfg.hi);
            let mut b = s.range(a, (a + 6).min(cfg.hi));
            for m in &must {
                a = a.min(*m);
                b = b.max(*m);
            }
            Goal::Fd(FdGoal::InFdRange(x, a, b))
        }
    };
    if nvars >= 2 && s.flag(70) {
        // one domain for all variables at once, posted on a list
        let all = Term::list((0..nvars).map(|v| Term::Var(v as VarId)).collect());
        domain_goals.push(dom(s, all));
    } else {
        for v in 0..nvars {
            domain_goals.push(dom(s, Term::Var(v as VarId)));
        }
    }
    if s.flag(40) {
        let x = var(s);
        domain_goals.push(dom(s, x));
    }
    // constraints
    let nc = if s.flag(200) { 2 + s.below(cfg.max_constraints.saturating_sub(1).max(1)) } else { s.below(cfg.max_constraints + 1) };
    let mut cons = vec![];
    for _ in 0..nc {
        let mut w = [3u32, 2, 3, 2, 2, 2, 2, 2];
        if !cfg.times {
            w[4] = 0;
        }
        if !cfg.eq {
            w[7] = 0;
        }
        let g = match s.weighted(&w) {
            0 => Goal::Fd(FdGoal::Lte(operand(s), operand(s))),
            1 => Goal::Fd(FdGoal::Lt(operand(s), operand(s))),
            2 => Goal::Fd(FdGoal::Plus(operand(s), operand(s), operand(s))),
            3 => Goal::Fd(FdGoal::Minus(operand(s), operand(s), operand(s))),
            4 => Goal::Fd(FdGoal::Times(operand(s), operand(s), operand(s))),
            5 => Goal::Fd(FdGoal::Diseq(operand(s), operand(s))),
            6 => {
                let n = 2 + s.below(3);
                let items: Vec<Term> = (0..n).map(|_| operand(s)).collect();
                Goal::Fd(FdGoal::Distinct(Term::list(items)))
            }
            _ => {
                let a = var(s);
                // now and then a finite-domain variable meets a term that is not an integer at
                // all ([] , a list, an improper list, a bool, a compound): the goal must fail
                let b = if cfg.non_int_eq && s.flag(20) {
                    match s.below(5) {
                        0 => Term::Nil,
                        1 => Term::list(vec![Term::Int(1), Term::Int(2)]),
                        2 => Term::improper(vec![Term::Int(1)], Term::Int(2)),
                        3 => Term::Bool(true),
                        _ => Term::Cmp(Kind::Pair, vec![Term::Int(1), Term::Int(2)]),
                    }
                } else {
                    operand(s)
                };
                Goal::Eq(a, b)
            }
        };
        // steer the constraint towards the witness: replace the last operand of an arithmetic
        // constraint by the constant that makes it hold, orient comparisons
        let g = if steer && s.flag(200) {
            let val = |t: &Term| -> i64 {
                match t {
                    Term::Int(i) => *i,
                    Term::Var(v) => wit[*v as usize],
                    _ => 0,
                }
            };
            match g {
                Goal::Fd(FdGoal::Plus(a, b, c)) => {
                    if val(&a) + val(&b) == val(&c) { Goal::Fd(FdGoal::Plus(a, b, c)) } else { let k = Term::Int(val(&a) + val(&b)); Goal::Fd(FdGoal::Plus(a, b, k)) }
                }
                Goal::Fd(FdGoal::Minus(a, b, c)) => {
                    if val(&a) - val(&b) == val(&c) { Goal::Fd(FdGoal::Minus(a, b, c)) } else { let k = Term::Int(val(&a) - val(&b)); Goal::Fd(FdGoal::Minus(a, b, k)) }
                }
                Goal::Fd(FdGoal::Times(a, b, c)) => {
                    if val(&a) * val(&b) == val(&c) { Goal::Fd(FdGoal::Times(a, b, c)) } else { let k = Term::Int(val(&a) * val(&b)); Goal::Fd(FdGoal::Times(a, b, k)) }
                }
                Goal::Fd(FdGoal::Lte(a, b)) => {
                    if val(&a) <= val(&b) { Goal::Fd(FdGoal::Lte(a, b)) } else { Goal::Fd(FdGoal::Lte(b, a)) }
                }
                Goal::Fd(FdGoal::Lt(a, b)) => {
                    if val(&a) < val(&b) { Goal::Fd(FdGoal::Lt(a, b)) } else if val(&b) < val(&a) { Goal::Fd(FdGoal::Lt(b, a)) } else { Goal::Fd(FdGoal::Lte(a, b)) }
                }
                Goal::Eq(a, b) => {
                    if val(&a) == val(&b) { Goal::Eq(a, b) } else { let k = Term::Int(val(&a)); Goal::Eq(a, k) }
                }
                g => g,
            }
        } else {
            g
        };
        cons.push(g);
    }
    if !cfg.aliasing {
        cons.retain(|g| !has_alias(g));
    }
    // posting order: domains first, or arbitrary interleaving
    let mut goals: Vec<Goal> = domain_goals;
    goals.extend(cons);
    if s.flag(128) {
        let perm = s.permutation(goals.len());
        goals = perm.into_iter().map(|i| goals[i].clone()).collect();
    }
    // `x == <list>` is only judged when x already has its domain: a domain posted on a variable
    // that is bound to a list applies to the list's elements (documented behaviour of infd on
    // lists), which the integer brute-force model does not cover. Such equations go last.
    let non_int = |g: &Goal| matches!(g, Goal::Eq(_, b) if !matches!(b, Term::Int(_) | Term::Var(_)));
    let (last, mut first): (Vec<Goal>, Vec<Goal>) = goals.into_iter().partition(|g| non_int(g));
    first.extend(last);
    let goals = first;
    let (shape, shape_term) = if cfg.shapes {
        match s.weighted(&[5, 2, 2]) {
            0 => (QueryShape::Plain, None),
            1 => {
                let n = 1 + s.below(3);
                let items: Vec<Term> = (0..n).map(|_| operand(s)).collect();
                (QueryShape::List, Some(Term::list(items)))
            }
            _ => {
                let k = if s.flag(128) { Kind::Pair } else { Kind::Tuple };
                let inner = if s.flag(60) { Term::list(vec![operand(s)]) } else { operand(s) };
                (QueryShape::Compound, Some(Term::Cmp(k, vec![operand(s), inner])))
            }
        }
    } else {
        (QueryShape::Plain, None)
    };
    FdCase { nvars, nvisible, shape, shape_term, goals }
}

pub fn has_alias(g: &Goal) -> bool {
    let mut vs: Vec<VarId> = vec![];
    let mut dup = false;
    let mut t = |x: &Term| {
        if let Term::Var(v) = x {
            if vs.contains(v) {
                dup = true;
            }
            vs.push(*v);
        }
    };
    match g {
        Goal::Fd(FdGoal::Lte(a, b)) | Goal::Fd(FdGoal::Lt(a, b)) | Goal::Fd(FdGoal::Diseq(a, b)) | Goal::Eq(a, b) => {
            t(a);
            t(b);
        }
        Goal::Fd(FdGoal::Plus(a, b, c)) | Goal::Fd(FdGoal::Minus(a, b, c)) | Goal::Fd(FdGoal::Times(a, b, c)) => {
            t(a);
            t(b);
            t(c);
        }
        Goal::Fd(FdGoal::Distinct(l)) => {
            if let Some(items) = l.as_proper_list() {
                for i in items {
                    t(i);
                }
            }
        }
        _ => {}
    }
    dup
}

// ---------------------------------------------------------------------------------------------
// wide domains (scale family of C16/C17): the same vocabulary, but domains with tens to hundreds
// of values — long intervals, long sparse lists, and several domains for one variable so that
// interval ∩ sparse, sparse ∩ sparse and interval ∩ interval intersections of large operands
// are taken.

fn heavy(s: &mut Source, cap: usize) -> usize {
    crate::gen::scale::size(s, cap)
}

pub fn gen_case_wide(s: &mut Source, thorough: bool) -> FdCase {
    let nvars = 1 + s.below(3);
    let nhidden = if nvars > 1 && s.flag(50) { 1 } else { 0 };
    let nvisible = nvars - nhidden;
    let caps: [usize; 3] = if thorough { [1200, 60, 6] } else { [300, 40, 6] };
    // per variable: one to three domain descriptions; the effective domain is their intersection
    let mut domain_goals: Vec<Goal> = vec![];
    let mut eff: Vec<std::collections::BTreeSet<i64>> = vec![];
    // which variable gets the widest cap
    let wide_at = s.below(nvars);
    for v in 0..nvars {
        let cap = if v == wide_at { caps[0] } else if (v + nvars - wide_at) % nvars == 1 { caps[1] } else { caps[2] };
        let nd = 1 + s.weighted(&[5, 3, 1]);
        let mut cur: Option<std::collections::BTreeSet<i64>> = None;
        let base = s.range(-20, 20);
        for _ in 0..nd {
            let (goal, set): (Goal, std::collections::BTreeSet<i64>) = if s.flag(110) {
                // sparse: an arithmetic progression, possibly with a few holes / extras
                let n = heavy(s, cap.min(150)).max(1);
                let stride = 1 + s.below(7) as i64;
                let start = base + s.range(-5, 5);
                let mut vals: Vec<i64> = (0..n as i64).map(|i| start + i * stride).collect();
                let holes = s.below(4);
                for _ in 0..holes {
                    if vals.len() > 1 {
                        let k = s.below(vals.len());
                        vals.remove(k);
                    }
                }
                if s.flag(40) {
                    vals.reverse(); // unsorted input
                }
                if s.flag(40) && !vals.is_empty() {
                    let k = s.below(vals.len());
                    vals.push(vals[k]); // duplicate
                }
                let set = vals.iter().copied().collect();
                (Goal::Fd(FdGoal::InFd(Term::Var(v as VarId), vals)), set)
            } else {
                let n = heavy(s, cap).max(1) as i64;
                let a = base + s.range(-10, 30);
                let b = a + n - 1;
                (Goal::Fd(FdGoal::InFdRange(Term::Var(v as VarId), a, b)), (a..=b).collect())
            };
            domain_goals.push(goal);
            cur = Some(match cur {
                None => set,
                Some(c) => c.intersection(&set).copied().collect(),
            });
        }
        eff.push(cur.unwrap_or_default());
    }
    // witness inside the effective domains when possible
    let wit: Vec<i64> = eff
        .iter()
        .map(|d| {
            if d.is_empty() {
                0
            } else {
                let k = s.below(d.len());
                *d.iter().nth(k).unwrap()
            }
        })
        .collect();
    let steer = s.flag(190);
    let var = |s: &mut Source| Term::Var(s.below(nvars) as VarId);
    let operand = |s: &mut Source| -> Term {
        if s.flag(70) {
            // constants near the witness values or anywhere in the wide range
            if s.flag(128) {
                Term::Int(wit[s.below(nvars)] + s.range(-2, 2))
            } else {
                Term::Int(s.range(-30, 330))
            }
        } else {
            Term::Var(s.below(nvars) as VarId)
        }
    };
    let nc = s.below(4);
    let mut cons = vec![];
    for _ in 0..nc {
        let g = match s.weighted(&[3, 2, 3, 2, 1, 2, 1, 2]) {
            0 => Goal::Fd(FdGoal::Lte(operand(s), operand(s))),
            1 => Goal::Fd(FdGoal::Lt(operand(s), operand(s))),
            2 => Goal::Fd(FdGoal::Plus(operand(s), operand(s), operand(s))),
            3 => Goal::Fd(FdGoal::Minus(operand(s), operand(s), operand(s))),
            4 => Goal::Fd(FdGoal::Times(operand(s), Term::Int(s.range(-3, 4)), operand(s))),
            5 => Goal::Fd(FdGoal::Diseq(operand(s), operand(s))),
            6 => Goal::Fd(FdGoal::Distinct(Term::list((0..nvars).map(|v| Term::Var(v as VarId)).collect()))),
            _ => Goal::Eq(var(s), operand(s)),
        };
        let val = |t: &Term| -> i64 {
            match t {
                Term::Int(i) => *i,
                Term::Var(v) => wit[*v as usize],
                _ => 0,
            }
        };
        let g = if steer {
            match g {
                Goal::Fd(FdGoal::Plus(a, b, c)) if val(&a) + val(&b) != val(&c) => {
                    let k = Term::Int(val(&a) + val(&b));
                    Goal::Fd(FdGoal::Plus(a, b, k))
                }
                Goal::Fd(FdGoal::Minus(a, b, c)) if val(&a) - val(&b) != val(&c) => {
                    let k = Term::Int(val(&a) - val(&b));
                    Goal::Fd(FdGoal::Minus(a, b, k))
                }
                Goal::Fd(FdGoal::Times(a, b, c)) if val(&a) * val(&b) != val(&c) => {
                    let k = Term::Int(val(&a) * val(&b));
                    Goal::Fd(FdGoal::Times(a, b, k))
                }
                Goal::Fd(FdGoal::Lte(a, b)) if val(&a) > val(&b) => Goal::Fd(FdGoal::Lte(b, a)),
                Goal::Fd(FdGoal::Lt(a, b)) if val(&a) >= val(&b) => {
                    if val(&b) < val(&a) {
                        Goal::Fd(FdGoal::Lt(b, a))
                    } else {
                        Goal::Fd(FdGoal::Lte(a, b))
                    }
                }
                Goal::Eq(a, b) if val(&a) != val(&b) => {
                    let k = Term::Int(val(&a));
                    Goal::Eq(a, k)
                }
                g => g,
            }
        } else {
            g
        };
        cons.push(g);
    }
    let mut goals = domain_goals;
    goals.extend(cons);
    if s.flag(110) {
        let perm = s.permutation(goals.len());
        goals = perm.into_iter().map(|i| goals[i].clone()).collect();
    }
    FdCase { nvars, nvisible, shape: QueryShape::Plain, shape_term: None, goals }
}
