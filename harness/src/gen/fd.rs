//! Family F: CLP(FD) programs.

use crate::ast::{FdGoal, Goal, Kind, Program, Term, VarId};
use crate::source::Source;

#[derive(Clone, Debug)]
pub struct FdCfg {
    pub max_vars: usize,
    pub max_constraints: usize,
    pub lo: i64,
    pub hi: i64,
    pub aliasing: bool,
    pub times: bool,
    pub eq: bool,
    pub shapes: bool,
    pub hidden: bool,
}

impl FdCfg {
    pub fn full() -> FdCfg {
        FdCfg { max_vars: 4, max_constraints: 5, lo: -4, hi: 6, aliasing: true, times: true, eq: true, shapes: true, hidden: true }
    }
}

#[derive(Clone, Debug, PartialEq, Eq)]
pub enum QueryShape {
    /// the query variables are the FD variables themselves
    Plain,
    /// one extra query variable bound to a list of FD variables
    List,
    /// one extra query variable bound to a compound of FD variables
    Compound,
}

#[derive(Clone, Debug)]
pub struct FdCase {
    /// FD variables are ids 0..nvars; the first `nvisible` are query variables
    pub nvars: usize,
    pub nvisible: usize,
    pub shape: QueryShape,
    /// the term the extra query variable is bound to (shape != Plain)
    pub shape_term: Option<Term>,
    /// goals in posting order (domains, constraints, equalities)
    pub goals: Vec<Goal>,
}

impl FdCase {
    pub fn program(&self) -> Program {
        let extra = if self.shape == QueryShape::Plain { 0 } else { 1 };
        // variable ids: FD variables keep their ids; visible ones must be query variables,
        // so renumber: visible 0..nvisible, extra = nvisible, hidden after that
        let nq = self.nvisible + extra;
        let map = |v: VarId| -> VarId {
            if (v as usize) < self.nvisible {
                v
            } else {
                v + extra as VarId
            }
        };
        let rn = |t: &Term| t.map_vars(&mut |v| Term::Var(map(v)));
        let mut body: Vec<Goal> = self.goals.iter().map(|g| rename_fd(g, &rn)).collect();
        if let Some(st) = &self.shape_term {
            body.push(Goal::Eq(Term::Var(self.nvisible as VarId), rn(st)));
        }
        let hidden: Vec<VarId> = (self.nvisible..self.nvars).map(|v| map(v as VarId)).collect();
        let body = if hidden.is_empty() { body } else { vec![Goal::Fresh(hidden, body)] };
        Program { nq, body }
    }
}

fn rename_fd(g: &Goal, rn: &dyn Fn(&Term) -> Term) -> Goal {
    match g {
        Goal::Eq(a, b) => Goal::Eq(rn(a), rn(b)),
        Goal::Fd(f) => Goal::Fd(match f {
            FdGoal::InFd(x, d) => FdGoal::InFd(rn(x), d.clone()),
            FdGoal::InFdRange(x, a, b) => FdGoal::InFdRange(rn(x), *a, *b),
            FdGoal::Lte(a, b) => FdGoal::Lte(rn(a), rn(b)),
            FdGoal::Lt(a, b) => FdGoal::Lt(rn(a), rn(b)),
            FdGoal::Plus(a, b, c) => FdGoal::Plus(rn(a), rn(b), rn(c)),
            FdGoal::Minus(a, b, c) => FdGoal::Minus(rn(a), rn(b), rn(c)),
            FdGoal::Times(a, b, c) => FdGoal::Times(rn(a), rn(b), rn(c)),
            FdGoal::Diseq(a, b) => FdGoal::Diseq(rn(a), rn(b)),
            FdGoal::Distinct(a) => FdGoal::Distinct(rn(a)),
        }),
        g => g.clone(),
    }
}

pub fn gen_case(s: &mut Source, cfg: &FdCfg) -> FdCase {
    let nvars = 1 + s.below(cfg.max_vars);
    let nhidden = if cfg.hidden && nvars > 1 && s.flag(60) { 1 + s.below(nvars - 1) } else { 0 };
    let nvisible = nvars - nhidden;
    let var = |s: &mut Source| Term::Var(s.below(nvars) as VarId);
    let operand = |s: &mut Source| -> Term {
        if s.flag(50) {
            Term::Int(s.range(cfg.lo, cfg.hi))
        } else {
            Term::Var(s.below(nvars) as VarId)
        }
    };
    // A witness assignment: with weight 0.7 domains and constraints are steered so that the
    // witness is a solution, which makes satisfiable (non-trivial) programs frequent.
    let steer = s.flag(180);
    let wit: Vec<i64> = (0..nvars).map(|_| s.range(cfg.lo, cfg.hi)).collect();
    // domains: each variable gets at least one; some get two; some are posted on lists
    let mut domain_goals = vec![];
    let dom = |s: &mut Source, x: Term| -> Goal {
        // values the domain must contain when steering
        let must: Vec<i64> = if steer {
            match &x {
                Term::Var(v) => vec![wit[*v as usize]],
                t => t.as_proper_list().map(|l| l.iter().filter_map(|e| if let Term::Var(v) = e { Some(wit[*v as usize]) } else { None }).collect()).unwrap_or_default(),
            }
        } else {
            vec![]
        };
        if s.flag(90) {
            let n = 1 + s.below(5);
            let mut vals: Vec<i64> = (0..n).map(|_| s.range(cfg.lo, cfg.hi)).collect();
            vals.extend(must.iter().copied());
            Goal::Fd(FdGoal::InFd(x, vals))
        } else {
            let mut a = s.range(cfg.lo, cfg.hi);
            let mut b = s.range(a, (a + 6).min(cfg.hi));
            for m in &must {
                a = a.min(*m);
                b = b.max(*m);
            }
            Goal::Fd(FdGoal::InFdRange(x, a, b))
        }
    };
    if nvars >= 2 && s.flag(70) {
        // one domain for all variables at once, posted on a list
        let all = Term::list((0..nvars).map(|v| Term::Var(v as VarId)).collect());
        domain_goals.push(dom(s, all));
    } else {
        for v in 0..nvars {
            domain_goals.push(dom(s, Term::Var(v as VarId)));
        }
    }
    if s.flag(40) {
        let x = var(s);
        domain_goals.push(dom(s, x));
    }
    // constraints
    let nc = if s.flag(200) { 2 + s.below(cfg.max_constraints.saturating_sub(1).max(1)) } else { s.below(cfg.max_constraints + 1) };
    let mut cons = vec![];
    for _ in 0..nc {
        let mut w = [3u32, 2, 3, 2, 2, 2, 2, 2];
        if !cfg.times {
            w[4] = 0;
        }
        if !cfg.eq {
            w[7] = 0;
        }
        let g = match s.weighted(&w) {
            0 => Goal::Fd(FdGoal::Lte(operand(s), operand(s))),
            1 => Goal::Fd(FdGoal::Lt(operand(s), operand(s))),
            2 => Goal::Fd(FdGoal::Plus(operand(s), operand(s), operand(s))),
            3 => Goal::Fd(FdGoal::Minus(operand(s), operand(s), operand(s))),
            4 => Goal::Fd(FdGoal::Times(operand(s), operand(s), operand(s))),
            5 => Goal::Fd(FdGoal::Diseq(operand(s), operand(s))),
            6 => {
                let n = 2 + s.below(3);
                let items: Vec<Term> = (0..n).map(|_| operand(s)).collect();
                Goal::Fd(FdGoal::Distinct(Term::list(items)))
            }
            _ => {
                let a = var(s);
                let b = operand(s);
                Goal::Eq(a, b)
            }
        };
        // steer the constraint towards the witness: replace the last operand of an arithmetic
        // constraint by the constant that makes it hold, orient comparisons
        let g = if steer && s.flag(200) {
            let val = |t: &Term| -> i64 {
                match t {
                    Term::Int(i) => *i,
                    Term::Var(v) => wit[*v as usize],
                    _ => 0,
                }
            };
            match g {
                Goal::Fd(FdGoal::Plus(a, b, c)) => {
                    if val(&a) + val(&b) == val(&c) { Goal::Fd(FdGoal::Plus(a, b, c)) } else { let k = Term::Int(val(&a) + val(&b)); Goal::Fd(FdGoal::Plus(a, b, k)) }
                }
                Goal::Fd(FdGoal::Minus(a, b, c)) => {
                    if val(&a) - val(&b) == val(&c) { Goal::Fd(FdGoal::Minus(a, b, c)) } else { let k = Term::Int(val(&a) - val(&b)); Goal::Fd(FdGoal::Minus(a, b, k)) }
                }
                Goal::Fd(FdGoal::Times(a, b, c)) => {
                    if val(&a) * val(&b) == val(&c) { Goal::Fd(FdGoal::Times(a, b, c)) } else { let k = Term::Int(val(&a) * val(&b)); Goal::Fd(FdGoal::Times(a, b, k)) }
                }
                Goal::Fd(FdGoal::Lte(a, b)) => {
                    if val(&a) <= val(&b) { Goal::Fd(FdGoal::Lte(a, b)) } else { Goal::Fd(FdGoal::Lte(b, a)) }
                }
                Goal::Fd(FdGoal::Lt(a, b)) => {
                    if val(&a) < val(&b) { Goal::Fd(FdGoal::Lt(a, b)) } else if val(&b) < val(&a) { Goal::Fd(FdGoal::Lt(b, a)) } else { Goal::Fd(FdGoal::Lte(a, b)) }
                }
                Goal::Eq(a, b) => {
                    if val(&a) == val(&b) { Goal::Eq(a, b) } else { let k = Term::Int(val(&a)); Goal::Eq(a, k) }
                }
                g => g,
            }
        } else {
            g
        };
        cons.push(g);
    }
    if !cfg.aliasing {
        cons.retain(|g| !has_alias(g));
    }
    // posting order: domains first, or arbitrary interleaving
    let mut goals: Vec<Goal> = domain_goals;
    goals.extend(cons);
    if s.flag(128) {
        let perm = s.permutation(goals.len());
        goals = perm.into_iter().map(|i| goals[i].clone()).collect();
    }
    let (shape, shape_term) = if cfg.shapes {
        match s.weighted(&[5, 2, 2]) {
            0 => (QueryShape::Plain, None),
            1 => {
                let n = 1 + s.below(3);
                let items: Vec<Term> = (0..n).map(|_| operand(s)).collect();
                (QueryShape::List, Some(Term::list(items)))
            }
            _ => {
                let k = if s.flag(128) { Kind::Pair } else { Kind::Tuple };
                let inner = if s.flag(60) { Term::list(vec![operand(s)]) } else { operand(s) };
                (QueryShape::Compound, Some(Term::Cmp(k, vec![operand(s), inner])))
            }
        }
    } else {
        (QueryShape::Plain, None)
    };
    FdCase { nvars, nvisible, shape, shape_term, goals }
}

pub fn has_alias(g: &Goal) -> bool {
    let mut vs: Vec<VarId> = vec![];
    let mut dup = false;
    let mut t = |x: &Term| {
        if let Term::Var(v) = x {
            if vs.contains(v) {
                dup = true;
            }
            vs.push(*v);
        }
    };
    match g {
        Goal::Fd(FdGoal::Lte(a, b)) | Goal::Fd(FdGoal::Lt(a, b)) | Goal::Fd(FdGoal::Diseq(a, b)) | Goal::Eq(a, b) => {
            t(a);
            t(b);
        }
        Goal::Fd(FdGoal::Plus(a, b, c)) | Goal::Fd(FdGoal::Minus(a, b, c)) | Goal::Fd(FdGoal::Times(a, b, c)) => {
            t(a);
            t(b);
            t(c);
        }
        Goal::Fd(FdGoal::Distinct(l)) => {
            if let Some(items) = l.as_proper_list() {
                for i in items {
                    t(i);
                }
            }
        }
        _ => {}
    }
    dup
}
