//! Decoders: bytes (choice source) -> AST. One function family per generator family.
pub mod fd;
pub mod search;
pub mod surface;
pub mod terms;
pub mod tree;
pub mod scale;
