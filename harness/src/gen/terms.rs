//! Term decoder.

use crate::ast::{Kind, Term, VarId};
use crate::source::Source;

#[derive(Clone, Debug)]
pub struct TermCfg {
    pub atoms: Vec<Term>,
    pub vars: Vec<VarId>,
    pub max_depth: usize,
    pub max_len: usize,
    pub improper: bool,
    pub kinds: Vec<Kind>,
    /// weights: atom, var, nil, list, compound
    pub w: [u32; 5],
    /// when set: a variable position is an anonymous `_` (a new id from this counter) with
    /// probability 1/6
    pub wild: Option<std::rc::Rc<std::cell::Cell<VarId>>>,
}

impl TermCfg {
    pub fn small_ints(vars: Vec<VarId>) -> TermCfg {
        TermCfg {
            atoms: vec![Term::Int(0), Term::Int(1), Term::Int(2), Term::Int(3)],
            vars,
            max_depth: 2,
            max_len: 3,
            improper: true,
            kinds: vec![Kind::Pair],
            w: [5, 6, 1, 4, 1],
            wild: None,
        }
    }
    pub fn all_literals(vars: Vec<VarId>) -> TermCfg {
        TermCfg {
            atoms: vec![
                Term::Int(0),
                Term::Int(1),
                Term::Int(2),
                Term::Bool(true),
                Term::Bool(false),
                Term::Char('a'),
                Term::Str("s".into()),
                Term::Str("".into()),
                Term::Int(-1),
            ],
            vars,
            max_depth: 3,
            max_len: 3,
            improper: true,
            kinds: Kind::ALL.to_vec(),
            w: [5, 6, 1, 4, 3],
            wild: None,
        }
    }
}

pub fn gen_atom(s: &mut Source, cfg: &TermCfg) -> Term {
    cfg.atoms[s.below(cfg.atoms.len())].clone()
}

pub fn gen_var_or_atom(s: &mut Source, cfg: &TermCfg) -> Term {
    if !cfg.vars.is_empty() && s.flag(150) {
        Term::Var(cfg.vars[s.below(cfg.vars.len())])
    } else {
        gen_atom(s, cfg)
    }
}

pub fn gen_term(s: &mut Source, cfg: &TermCfg, depth: usize) -> Term {
    let mut w = cfg.w;
    if cfg.vars.is_empty() {
        w[1] = 0;
    }
    if depth >= cfg.max_depth {
        w[3] = 0;
        w[4] = 0;
    }
    if cfg.kinds.is_empty() {
        w[4] = 0;
    }
    match s.weighted(&w) {
        0 => gen_atom(s, cfg),
        1 => match &cfg.wild {
            Some(c) if s.flag(42) => {
                let id = c.get();
                c.set(id + 1);
                Term::Var(id)
            }
            _ => Term::Var(cfg.vars[s.below(cfg.vars.len())]),
        },
        2 => Term::Nil,
        3 => {
            let n = 1 + s.below(cfg.max_len);
            let items: Vec<Term> = (0..n).map(|_| gen_term(s, cfg, depth + 1)).collect();
            if cfg.improper && s.flag(60) {
                // improper tail: variable or atom (a list tail would just make a longer list)
                let tail = gen_var_or_atom(s, cfg);
                Term::improper(items, tail)
            } else {
                Term::list(items)
            }
        }
        _ => {
            let k = cfg.kinds[s.below(cfg.kinds.len())];
            gen_compound(s, cfg, k, depth)
        }
    }
}

pub fn gen_compound(s: &mut Source, cfg: &TermCfg, k: Kind, depth: usize) -> Term {
    match k {
        Kind::Node => {
            let name = gen_term(s, cfg, depth + 1);
            let mut child = |s: &mut Source| -> Term {
                let mut w = [2u32, 3, 2];
                if cfg.vars.is_empty() {
                    w[1] = 0;
                }
                if depth + 1 >= cfg.max_depth {
                    w[2] = 0;
                }
                match s.weighted(&w) {
                    0 => Term::Nil,
                    1 => Term::Var(cfg.vars[s.below(cfg.vars.len())]),
                    _ => gen_compound(s, cfg, Kind::Node, depth + 1),
                }
            };
            let l = child(s);
            let r = child(s);
            Term::Cmp(Kind::Node, vec![name, l, r])
        }
        Kind::Wrap => {
            let first = gen_term(s, cfg, depth + 1);
            let second = if s.flag(128) { Term::Cmp(Kind::Pair, vec![gen_term(s, cfg, depth + 1), gen_term(s, cfg, depth + 1)]) } else { Term::Nil };
            Term::Cmp(Kind::Wrap, vec![first, second])
        }
        k => {
            let args = (0..k.arity()).map(|_| gen_term(s, cfg, depth + 1)).collect();
            Term::Cmp(k, args)
        }
    }
}

/// All sub-term positions of a term (pre-order paths).
pub fn positions(t: &Term, cur: &mut Vec<usize>, out: &mut Vec<Vec<usize>>) {
    out.push(cur.clone());
    match t {
        Term::Cons(h, tl) => {
            cur.push(0);
            positions(h, cur, out);
            cur.pop();
            cur.push(1);
            positions(tl, cur, out);
            cur.pop();
        }
        Term::Cmp(_, a) => {
            for (i, x) in a.iter().enumerate() {
                cur.push(i);
                positions(x, cur, out);
                cur.pop();
            }
        }
        _ => {}
    }
}

pub fn replace_at(t: &Term, path: &[usize], new: &Term) -> Term {
    if path.is_empty() {
        return new.clone();
    }
    match t {
        Term::Cons(h, tl) => {
            if path[0] == 0 {
                Term::cons(replace_at(h, &path[1..], new), (**tl).clone())
            } else {
                Term::cons((**h).clone(), replace_at(tl, &path[1..], new))
            }
        }
        Term::Cmp(k, a) => {
            let mut b = a.clone();
            b[path[0]] = replace_at(&a[path[0]], &path[1..], new);
            Term::Cmp(*k, b)
        }
        _ => new.clone(),
    }
}

pub fn subterm_at<'a>(t: &'a Term, path: &[usize]) -> &'a Term {
    if path.is_empty() {
        return t;
    }
    match t {
        Term::Cons(h, tl) => {
            if path[0] == 0 {
                subterm_at(h, &path[1..])
            } else {
                subterm_at(tl, &path[1..])
            }
        }
        Term::Cmp(_, a) => subterm_at(&a[path[0]], &path[1..]),
        _ => t,
    }
}

/// A mutation of `u` that keeps it "close": used so that unifiable, near-miss and
/// occurs-check cases are all frequent.
pub fn mutate(s: &mut Source, cfg: &TermCfg, u: &Term) -> Term {
    let mut pos = vec![];
    positions(u, &mut vec![], &mut pos);
    let p = pos[s.below(pos.len())].clone();
    let sub = subterm_at(u, &p).clone();
    match s.below(7) {
        // replace a sub-term by a variable
        0 | 1 => {
            if cfg.vars.is_empty() {
                u.clone()
            } else {
                replace_at(u, &p, &Term::Var(cfg.vars[s.below(cfg.vars.len())]))
            }
        }
        // replace by a fresh random term
        2 => replace_at(u, &p, &gen_term(s, cfg, cfg.max_depth.saturating_sub(1))),
        // bury an occurrence of a variable of u under a constructor (occurs check when the
        // two terms are unified: x against f(x))
        3 => {
            let vpos: Vec<&Vec<usize>> = pos.iter().filter(|q| subterm_at(u, q).is_var()).collect();
            if vpos.is_empty() {
                u.clone()
            } else {
                let q = vpos[s.below(vpos.len())].clone();
                let x = subterm_at(u, &q).clone();
                let wrapped = match s.below(4) {
                    0 => Term::list(vec![x.clone()]),
                    1 => Term::Cmp(Kind::Pair, vec![Term::Int(0), x.clone()]),
                    2 => Term::Cmp(Kind::Node, vec![Term::Int(0), Term::Nil, x.clone()]),
                    _ => Term::cons(Term::Int(1), x.clone()),
                };
                replace_at(u, &q, &wrapped)
            }
        }
        // swap list/compound children or change arity / tag / tail
        4 => match &sub {
            Term::Cons(h, tl) => replace_at(u, &p, &Term::cons((**tl).clone(), (**h).clone())),
            Term::Cmp(k, a) => {
                let nk = match k {
                    Kind::Pair => {
                        if cfg.kinds.contains(&Kind::Pair2) {
                            Kind::Pair2
                        } else {
                            Kind::Duo
                        }
                    }
                    Kind::Pair2 => Kind::Duo,
                    Kind::Duo => Kind::Tuple,
                    Kind::Tuple => Kind::Rec,
                    Kind::Rec => Kind::Pair,
                    Kind::Triple => Kind::Node,
                    Kind::Node => Kind::Triple,
                    Kind::Wrap => Kind::Pair,
                };
                let mut a = a.clone();
                if *k == Kind::Triple {
                    // Node needs node-ish children; keep Triple but permute
                    a.swap(0, 2);
                    replace_at(u, &p, &Term::Cmp(Kind::Triple, a))
                } else if *k == Kind::Node {
                    replace_at(u, &p, &Term::Cmp(Kind::Triple, a))
                } else {
                    replace_at(u, &p, &Term::Cmp(nk, a))
                }
            }
            _ => replace_at(u, &p, &gen_atom(s, cfg)),
        },
        // drop or add a list element / change improper tail
        5 => match &sub {
            Term::Cons(_, tl) => replace_at(u, &p, &(**tl).clone()),
            _ => replace_at(u, &p, &Term::cons(sub.clone(), Term::Nil)),
        },
        _ => match &sub {
            Term::Nil => replace_at(u, &p, &gen_var_or_atom(s, cfg)),
            _ => replace_at(u, &p, &Term::Nil),
        },
    }
}
