//! Running a program on the real engine: query assembly exactly as `Query::to_tokens` does,
//! under `catch_unwind` and the step budget; answers converted back to the AST.

use crate::ast::{Goal as AGoal, Program, Term, VarId};
use crate::build::{self, build_conj, build_term, Env, RunCtx, Unbuilder, VUser, E, LT, U};
use crate::guard::{guarded, Guarded, PanicInfo};
use proto_vulcan::goal::Goal;
use proto_vulcan::lresult::LResult;
use proto_vulcan::lterm::LTerm;
use proto_vulcan::operator::conj::{Conj, InferredConj};
use proto_vulcan::operator::fresh::Fresh;
use proto_vulcan::query::{Query, QueryResult};
use proto_vulcan::relation::diseq::DisequalityConstraint;
use proto_vulcan::GoalCast;
use std::rc::Rc;

pub struct Raw(pub Vec<LResult<U, E>>);

impl QueryResult<U, E> for Raw {
    fn from_vec(v: Vec<LResult<U, E>>) -> Raw {
        Raw(v)
    }
}

#[derive(Clone, Copy, Debug, PartialEq, Eq)]
pub enum Mode {
    /// the body as written, at the query's top level (interleaving search)
    Bfs,
    /// the whole body wrapped in `dfs { … }`
    Dfs,
}

#[derive(Clone, Copy, Debug)]
pub struct Limits {
    pub max_answers: usize,
    pub budget: u64,
}

impl Limits {
    pub fn all() -> Limits {
        Limits { max_answers: 10_000, budget: 2_000_000 }
    }
    pub fn first(n: usize, budget: u64) -> Limits {
        Limits { max_answers: n, budget }
    }
}

#[derive(Clone, Debug, PartialEq, Eq)]
pub enum End {
    Exhausted,
    Truncated,
    Budget(u64),
    Panic(PanicInfo),
}

#[derive(Clone, Debug, PartialEq, Eq, Hash, PartialOrd, Ord, serde::Serialize, serde::Deserialize)]
pub struct Answer {
    /// query terms with variables numbered canonically by first occurrence in the tuple
    pub terms: Vec<Term>,
    /// reported constraints; each a list of pairs meaning "not all pairs equal"; variables
    /// that do not occur in `terms` get the numbers after them
    pub cons: Vec<Vec<(Term, Term)>>,
}

#[derive(Clone, Debug, Default)]
pub struct AnswerMeta {
    /// names of non-`_` variables found in answer terms or constraints (C03)
    pub non_any: Vec<String>,
    /// per query variable: number of constraints LResult::constraints() returned, and
    /// is_constrained()
    pub reported: Vec<(usize, bool)>,
    /// per query variable: number of store constraints that mention a reified variable
    /// occurring anywhere in that result term (own traversal)
    pub expected_reported: Vec<usize>,
    pub user: Option<VUser>,
    pub steps: u64,
    /// number of variables that occur in the terms
    pub nvars_in_terms: usize,
    /// constraint variables that do not occur in any answer term
    pub hidden_vars: usize,
    pub fused_ok: bool,
}

#[derive(Clone, Debug)]
pub struct Outcome {
    pub answers: Vec<Answer>,
    pub meta: Vec<AnswerMeta>,
    pub end: End,
    pub steps: u64,
    pub ctx: Rc<RunCtx>,
    /// after the first None, three further next() calls returned None
    pub fused: bool,
}

impl Outcome {
    pub fn complete(&self) -> bool {
        self.end == End::Exhausted
    }
}

pub fn assemble(p: &Program, mode: Mode, env: &Env) -> (Vec<LT>, Goal<U, E>) {
    let qvars: Vec<LT> = (0..p.nq).map(|i| env.var(i as VarId)).collect();
    let body: Vec<AGoal> = match mode {
        Mode::Bfs => p.body.clone(),
        Mode::Dfs => vec![AGoal::Dfs(p.body.clone())],
    };
    let body_goals: Vec<Goal<U, E>> = build::build_list::<Goal<U, E>>(&body, env);
    let q = LTerm::var("__query__");
    let goal: Goal<U, E> = Fresh::new(
        vec![q.clone()],
        GoalCast::cast_into(InferredConj::from_array(&[
            GoalCast::cast_into(proto_vulcan::relation::eq::eq(q.clone(), LTerm::from_array(&qvars))),
            Conj::from_array(&body_goals),
            proto_vulcan::state::reify(q.clone()),
        ])),
    )
    .cast_into();
    (qvars, goal)
}

fn mentions<U2: proto_vulcan::user::User, E2: proto_vulcan::engine::Engine<U2>>(t: &LTerm<U2, E2>, target: &LTerm<U2, E2>) -> bool {
    use proto_vulcan::lterm::LTermInner;
    if t == target {
        return true;
    }
    match t.as_ref() {
        LTermInner::Cons(h, tl) => mentions(h, target) || mentions(tl, target),
        LTermInner::Compound(obj) => obj.children().any(|c| match c.as_term() {
            Some(x) => mentions(x, target),
            None => false,
        }),
        _ => false,
    }
}

fn collect_vars<U2: proto_vulcan::user::User, E2: proto_vulcan::engine::Engine<U2>>(t: &LTerm<U2, E2>, out: &mut Vec<LTerm<U2, E2>>) {
    use proto_vulcan::lterm::LTermInner;
    match t.as_ref() {
        LTermInner::Var(..) => {
            if !out.contains(t) {
                out.push(t.clone())
            }
        }
        LTermInner::Cons(h, tl) => {
            collect_vars(h, out);
            collect_vars(tl, out);
        }
        LTermInner::Compound(obj) => {
            for c in obj.children() {
                if let Some(x) = c.as_term() {
                    collect_vars(x, out);
                }
            }
        }
        _ => {}
    }
}

pub fn convert<U2: proto_vulcan::user::User, E2: proto_vulcan::engine::Engine<U2>>(results: &[LResult<U2, E2>]) -> (Answer, AnswerMeta) {
    let mut ub = Unbuilder::new();
    let terms: Vec<Term> = results.iter().map(|r| ub.term(&r.0)).collect();
    let nvars_in_terms = ub.ids.len();
    let mut cons = vec![];
    let mut meta = AnswerMeta::default();
    if let Some(first) = results.first() {
        for c in first.1.iter() {
            if let Some(d) = c.downcast_ref::<DisequalityConstraint<U2, E2>>() {
                let mut pairs: Vec<(Term, Term)> = d.smap_ref().iter().map(|(k, v)| (ub.term(k), ub.term(v))).collect();
                pairs.sort();
                cons.push(pairs);
            }
        }
        // relevance (C03): own traversal including compounds
        for r in results {
            let n = r.constraints().count();
            meta.reported.push((n, r.is_constrained()));
            let mut vs = vec![];
            collect_vars(&r.0, &mut vs);
            let exp = r
                .1
                .iter()
                .filter(|c| {
                    c.operands().iter().any(|op| vs.iter().any(|v| v == op))
                        || c.downcast_ref::<DisequalityConstraint<U2, E2>>()
                            .map(|d| d.smap_ref().iter().any(|(k, v)| vs.iter().any(|x| mentions(k, x) || mentions(v, x))))
                            .unwrap_or(false)
                })
                .count();
            meta.expected_reported.push(exp);
        }
    }
    cons.sort();
    meta.hidden_vars = ub.ids.len() - nvars_in_terms;
    meta.nvars_in_terms = nvars_in_terms;
    meta.non_any = ub.non_any;
    (Answer { terms, cons }, meta)
}

pub fn run(p: &Program, mode: Mode, limits: Limits) -> Outcome {
    run_with(p, mode, limits, false)
}

/// Run until `stop` returns true for an answer (that answer is included), or the limits hit.
pub fn run_until(p: &Program, mode: Mode, limits: Limits, stop: &mut dyn FnMut(&Answer, u64) -> bool) -> Outcome {
    let ctx = Rc::new(RunCtx::default());
    let mut answers = vec![];
    let mut metas = vec![];
    let mut end = End::Exhausted;
    let mut fused = true;
    let ctx2 = ctx.clone();
    let r = guarded(limits.budget, || {
        let env = Env::new();
        let (qvars, goal) = assemble(p, mode, &env);
        let query: Query<Raw, U, E> = Query::new(qvars, goal);
        let mut it = query.run_with_user(VUser::default(), ctx2);
        let mut n = 0;
        loop {
            if n >= limits.max_answers {
                end = End::Truncated;
                break;
            }
            match it.next() {
                Some(raw) => {
                    let (a, mut m) = convert(&raw.0);
                    m.steps = crate::guard::steps();
                    let done = stop(&a, m.steps);
                    answers.push(a);
                    metas.push(m);
                    n += 1;
                    if done {
                        end = End::Truncated;
                        break;
                    }
                }
                None => {
                    for _ in 0..3 {
                        if it.next().is_some() {
                            fused = false;
                        }
                    }
                    break;
                }
            }
        }
    });
    let steps = match &r {
        Guarded::Budget(s) => *s,
        _ => crate::guard::last_steps(),
    };
    match r {
        Guarded::Ok(()) => {}
        Guarded::Budget(s) => end = End::Budget(s),
        Guarded::Panic(p) => end = End::Panic(p),
    }
    Outcome { answers, meta: metas, end, steps, ctx, fused }
}

/// Build the query once and run the same `Query` object `times` times.
pub fn run_same_query(p: &Program, mode: Mode, limits: Limits, times: usize) -> Vec<Outcome> {
    let env = Env::new();
    let mut outs = vec![];
    let built = guarded(limits.budget, || {
        let (qvars, goal) = assemble(p, mode, &env);
        let query: Query<Raw, U, E> = Query::new(qvars, goal);
        query
    });
    let query = match built {
        Guarded::Ok(q) => q,
        Guarded::Panic(pi) => {
            return vec![Outcome { answers: vec![], meta: vec![], end: End::Panic(pi), steps: 0, ctx: Rc::new(RunCtx::default()), fused: true }];
        }
        Guarded::Budget(s) => {
            return vec![Outcome { answers: vec![], meta: vec![], end: End::Budget(s), steps: 0, ctx: Rc::new(RunCtx::default()), fused: true }];
        }
    };
    for _ in 0..times {
        let ctx = Rc::new(RunCtx::default());
        let mut answers = vec![];
        let mut metas = vec![];
        let mut end = End::Exhausted;
        let mut fused = true;
        let ctx2 = ctx.clone();
        let r = guarded(limits.budget, || {
            let mut it = query.run_with_user(VUser::default(), ctx2);
            let mut n = 0;
            loop {
                if n >= limits.max_answers {
                    end = End::Truncated;
                    break;
                }
                match it.next() {
                    Some(raw) => {
                        let (a, m) = convert(&raw.0);
                        answers.push(a);
                        metas.push(m);
                        n += 1;
                    }
                    None => {
                        for _ in 0..3 {
                            if it.next().is_some() {
                                fused = false;
                            }
                        }
                        break;
                    }
                }
            }
        });
        match r {
            Guarded::Ok(()) => {}
            Guarded::Budget(s) => end = End::Budget(s),
            Guarded::Panic(p) => end = End::Panic(p),
        }
        outs.push(Outcome { answers, meta: metas, end, steps: 0, ctx, fused });
    }
    outs
}

pub fn run_with(p: &Program, mode: Mode, limits: Limits, check_lifecycle: bool) -> Outcome {
    let ctx = Rc::new(RunCtx::default());
    ctx.check_lifecycle.set(check_lifecycle);
    let mut answers = vec![];
    let mut metas = vec![];
    let mut end = End::Exhausted;
    let mut fused = true;
    let ctx2 = ctx.clone();
    let r = guarded(limits.budget, || {
        let env = Env::new();
        let (qvars, goal) = assemble(p, mode, &env);
        let query: Query<Raw, U, E> = Query::new(qvars, goal);
        let mut it = query.run_with_user(VUser::default(), ctx2);
        let mut n = 0;
        loop {
            if n >= limits.max_answers {
                end = End::Truncated;
                break;
            }
            match it.next() {
                Some(raw) => {
                    let (a, mut m) = convert(&raw.0);
                    m.steps = crate::guard::steps();
                    answers.push(a);
                    metas.push(m);
                    n += 1;
                }
                None => {
                    for _ in 0..3 {
                        if it.next().is_some() {
                            fused = false;
                        }
                    }
                    break;
                }
            }
        }
    });
    let steps = match &r {
        Guarded::Budget(s) => *s,
        _ => crate::guard::last_steps(),
    };
    match r {
        Guarded::Ok(()) => {}
        Guarded::Budget(s) => end = End::Budget(s),
        Guarded::Panic(p) => end = End::Panic(p),
    }
    Outcome { answers, meta: metas, end, steps, ctx, fused }
}

/// Run and also return the final user states (C10, C22): the query is assembled with an
/// extra fngoal after `reify` that copies the user state into a side table.
pub fn run_collect_user(p: &Program, mode: Mode, limits: Limits, check_lifecycle: bool, check_ext_union: bool) -> (Outcome, Vec<(VUser, usize)>) {
    use proto_vulcan::operator::fngoal::FnGoal;
    use proto_vulcan::stream::Stream;
    use std::cell::RefCell;
    let ctx = Rc::new(RunCtx::default());
    ctx.check_lifecycle.set(check_lifecycle);
    ctx.check_ext_union.set(check_ext_union);
    let side: Rc<RefCell<Vec<(VUser, usize)>>> = Rc::new(RefCell::new(vec![]));
    let mut answers = vec![];
    let mut metas = vec![];
    let mut end = End::Exhausted;
    let mut fused = true;
    let ctx2 = ctx.clone();
    let side2 = side.clone();
    let r = guarded(limits.budget, || {
        let env = Env::new();
        let qvars: Vec<LT> = (0..p.nq).map(|i| env.var(i as VarId)).collect();
        let body: Vec<AGoal> = match mode {
            Mode::Bfs => p.body.clone(),
            Mode::Dfs => vec![AGoal::Dfs(p.body.clone())],
        };
        let body_goals: Vec<Goal<U, E>> = body.iter().map(|g| build::build_goal::<Goal<U, E>>(g, &env)).collect();
        let q = LTerm::var("__query__");
        let side3 = side2.clone();
        let tail: Goal<U, E> = FnGoal::new::<Goal<U, E>>(Box::new(move |_s, state| {
            let stored = state.cstore_ref().iter().count();
            side3.borrow_mut().push((state.user_state.clone(), stored));
            Stream::unit(Box::new(state))
        }))
        .cast_into();
        let pre: Goal<U, E> = FnGoal::new::<Goal<U, E>>(Box::new(move |solver, state| {
            let ctx = solver.context();
            if ctx.check_ext_union.get() {
                let n = state.smap_ref().len() as i64;
                if state.user_state.ext_bindings != n {
                    ctx.lifecycle.borrow_mut().push(format!(
                        "at the end of the body: process_extension logged {} bindings in {} calls but the substitution has {}",
                        state.user_state.ext_bindings, state.user_state.ext_calls, n
                    ));
                }
            }
            if ctx.check_lifecycle.get() {
                let stored = state.cstore_ref().iter().count();
                let (w, t) = (state.user_state.with, state.user_state.take);
                if w - t != stored as i64 {
                    ctx.lifecycle.borrow_mut().push(format!("at the end of the body: with_constraint={} take_constraint={} stored={}", w, t, stored));
                }
            }
            Stream::unit(Box::new(state))
        }))
        .cast_into();
        let goal: Goal<U, E> = Fresh::new(
            vec![q.clone()],
            GoalCast::cast_into(InferredConj::from_array(&[
                GoalCast::cast_into(proto_vulcan::relation::eq::eq(q.clone(), LTerm::from_array(&qvars))),
                Conj::from_array(&body_goals),
                pre,
                proto_vulcan::state::reify(q.clone()),
                tail,
            ])),
        )
        .cast_into();
        let query: Query<Raw, U, E> = Query::new(qvars, goal);
        let mut it = query.run_with_user(VUser::default(), ctx2);
        let mut n = 0;
        loop {
            if n >= limits.max_answers {
                end = End::Truncated;
                break;
            }
            match it.next() {
                Some(raw) => {
                    let (a, mut m) = convert(&raw.0);
                    m.steps = crate::guard::steps();
                    m.user = side2.borrow().last().map(|x| x.0.clone());
                    answers.push(a);
                    metas.push(m);
                    n += 1;
                }
                None => {
                    for _ in 0..3 {
                        if it.next().is_some() {
                            fused = false;
                        }
                    }
                    break;
                }
            }
        }
    });
    let steps = match &r {
        Guarded::Budget(s) => *s,
        _ => crate::guard::last_steps(),
    };
    match r {
        Guarded::Ok(()) => {}
        Guarded::Budget(s) => end = End::Budget(s),
        Guarded::Panic(p) => end = End::Panic(p),
    }
    let users = side.borrow().clone();
    (Outcome { answers, meta: metas, end, steps, ctx, fused }, users)
}

pub fn show_answer(a: &Answer) -> String {
    let mut s = String::new();
    s.push('(');
    for (i, t) in a.terms.iter().enumerate() {
        if i > 0 {
            s.push_str(", ");
        }
        s.push_str(&crate::ast::show_term(t, crate::ast::ANSWER));
    }
    s.push(')');
    if !a.cons.is_empty() {
        s.push_str(" where ");
        for (i, c) in a.cons.iter().enumerate() {
            if i > 0 {
                s.push_str(" & ");
            }
            s.push_str("!(");
            for (j, (x, y)) in c.iter().enumerate() {
                if j > 0 {
                    s.push_str(" && ");
                }
                s.push_str(&format!("{} == {}", crate::ast::show_term(x, crate::ast::ANSWER), crate::ast::show_term(y, crate::ast::ANSWER)));
            }
            s.push(')');
        }
    }
    s
}

pub fn show_answers(v: &[Answer]) -> String {
    let mut s = String::from("[");
    for (i, a) in v.iter().enumerate() {
        if i > 0 {
            s.push_str("; ");
        }
        s.push_str(&show_answer(a));
    }
    s.push(']');
    s
}

#[allow(dead_code)]
fn _unused(_: &dyn Fn(&Term) -> LT) {
    let _ = build_term;
    let _ = build_conj::<Goal<U, E>>;
}
