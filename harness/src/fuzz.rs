//! Entry point for the libFuzzer target (fuzz/fuzz_targets/family.rs).

use crate::framework::{Ctx, Family, Tier};
use std::sync::OnceLock;

struct Target {
    prop: String,
    fam: Family,
}

static TARGET: OnceLock<Target> = OnceLock::new();

fn target() -> &'static Target {
    TARGET.get_or_init(|| {
        let spec = std::env::var("PVH_FUZZ_TARGET").expect("PVH_FUZZ_TARGET=<property>:<family>");
        let (p, f) = spec.split_once(':').expect("PVH_FUZZ_TARGET=<property>:<family>");
        for def in crate::props::all() {
            if def.id == p {
                for fam in def.families {
                    if fam.name == f {
                        // libfuzzer-sys installs a hook that aborts on every panic, also on the
                        // ones the harness catches (step budget, known findings): replace it
                        crate::guard::install();
                        return Target { prop: p.to_string(), fam };
                    }
                }
            }
        }
        panic!("unknown fuzz target {}", spec);
    })
}

pub fn entry(data: &[u8]) {
    let t = target();
    if data.len() > t.fam.max_len {
        return;
    }
    let ctx = Ctx { tier: Tier::Thorough, strict: false, want_sample: false };
    let info = (t.fam.run)(data, &ctx);
    if let Some(f) = info.failure {
        eprintln!("VIOLATION-IN-FUZZ property={} family={} signature={}\n{}", t.prop, t.fam.name, f.signature, f.detail);
        std::process::abort();
    }
}
