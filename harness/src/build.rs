//! AST -> real proto-vulcan goals through the public Rust API (the constructors the macros
//! expand to), generic over the goal kind (BFS `Goal` / DFS `DFSGoal`).

use crate::ast::{self, FdGoal, Kind, MatchKind, NonRel, Rel, Term, VarId, ZGoal};
use proto_vulcan::engine::DefaultEngine;
use proto_vulcan::goal::{AnyGoal, DFSGoal, Goal, InferredGoal};
use proto_vulcan::lterm::{LTerm, LTermInner};
use proto_vulcan::lvalue::LValue;
use proto_vulcan::operator::closure::Closure;
use proto_vulcan::operator::conde::Conde;
use proto_vulcan::operator::conj::InferredConj;
use proto_vulcan::operator::fngoal::FnGoal;
use proto_vulcan::operator::fresh::Fresh;
use proto_vulcan::operator::project::Project;
use proto_vulcan::operator::{ClosureOperatorParam, ForOperatorParam, OperatorParam, PatternMatchOperatorParam};
use proto_vulcan::prelude::*;
use proto_vulcan::relation;
use proto_vulcan::state::constraint::Constraint;
use proto_vulcan::state::{SMap, SResult, State};
use proto_vulcan::stream::Stream;
use proto_vulcan::GoalCast;
use std::cell::{Cell, RefCell};
use std::collections::HashMap;
use std::rc::Rc;

pub type U = VUser;
pub type E = DefaultEngine<VUser>;
pub type LT = LTerm<U, E>;
pub type St = State<U, E>;

// ---------------------------------------------------------------------------------------
// instrumented user type

#[derive(Debug)]
pub struct TraceNode {
    pub id: u32,
    pub prev: Option<Rc<TraceNode>>,
}

#[derive(Clone, Debug, Default)]
pub struct VUser {
    pub with: i64,
    pub take: i64,
    pub counter: i64,
    pub ext_calls: i64,
    pub ext_bindings: i64,
    pub trace: Option<Rc<TraceNode>>,
}

impl VUser {
    pub fn trace_vec(&self) -> Vec<u32> {
        let mut v = vec![];
        let mut cur = self.trace.clone();
        while let Some(n) = cur {
            v.push(n.id);
            cur = n.prev.clone();
        }
        v.reverse();
        v
    }
}

/// Run-global context (reachable through `Solver::context()`).
#[derive(Debug, Default)]
pub struct RunCtx {
    pub ticket: Cell<i64>,
    /// lifecycle violations observed at probes / in process_extension (C22), also on
    /// branches that fail later
    pub lifecycle: RefCell<Vec<String>>,
    /// number of states that reached a probe
    pub probes: Cell<u64>,
    pub max_stored: Cell<usize>,
    pub check_lifecycle: Cell<bool>,
    /// tree programs only: at the end of the body the number of bindings logged through
    /// process_extension must equal the size of the substitution
    pub check_ext_union: Cell<bool>,
}

thread_local! {
    /// violations noticed inside User hooks, which have no access to the solver context
    pub static HOOK_VIOLATIONS: RefCell<Vec<String>> = RefCell::new(Vec::new());
}

impl User for VUser {
    type UserTerm = ();
    type UserContext = Rc<RunCtx>;

    fn process_extension<En: Engine<Self>>(mut state: State<Self, En>, extension: &SMap<Self, En>) -> SResult<Self, En> {
        state.user_state.ext_calls += 1;
        state.user_state.ext_bindings += extension.len() as i64;
        // "exactly that unification's new bindings": every binding of the extension is a
        // variable bound in the state's substitution to the very same term
        for (k, v) in extension.iter() {
            let ok = k.is_var() && state.smap_ref().get(k).map(|b| b == v).unwrap_or(false);
            if !ok {
                HOOK_VIOLATIONS.with(|h| h.borrow_mut().push(format!("process_extension got binding {:?} -> {:?} which is not in the state's substitution", k, v)));
            }
        }
        Ok(state)
    }

    fn with_constraint<En: Engine<Self>>(state: &mut State<Self, En>, _c: &Rc<dyn Constraint<Self, En>>) {
        state.user_state.with += 1;
    }

    fn take_constraint<En: Engine<Self>>(state: &mut State<Self, En>, _c: &Rc<dyn Constraint<Self, En>>) {
        state.user_state.take += 1;
    }
}

// ---------------------------------------------------------------------------------------
// compound types used by the generators

pub mod cmp {
    use proto_vulcan::prelude::*;

    #[compound]
    pub struct Pair(LTerm, LTerm);

    #[compound]
    pub struct Duo(LTerm, LTerm);

    #[compound]
    pub struct Triple(LTerm, LTerm, LTerm);

    #[compound]
    pub struct Rec {
        a: LTerm,
        b: LTerm,
    }

    #[compound]
    pub struct Node(LTerm, Node, Node);

    #[compound]
    pub struct Wrap(LTerm, Option<Pair>);

    /// A `Node` is a newtype over `LTerm`; inside this module its field is accessible, which is
    /// how a typed field can be given an arbitrary term (variable, `[]`, nested node).
    pub fn node_wrap<U: User, E: Engine<U>>(t: LTerm<U, E>) -> Node<U, E> {
        Node { inner: t }
    }
}

/// A second module with a compound type of the same identifier and shape as `cmp::Pair`:
/// `type_name()` is "Pair" for both, only the type identity differs.
pub mod cmp2 {
    use proto_vulcan::prelude::*;

    #[compound]
    pub struct Pair(LTerm, LTerm);
}

/// TypeId of the object behind a `cmp2::Pair` (learnt from a sample value)
fn pair2_type_id() -> std::any::TypeId {
    thread_local! {
        static ID: std::any::TypeId = {
            let t: LT = cmp2::Pair_compound::_InnerPair(LTerm::from(0isize), LTerm::from(0isize)).into();
            match t.as_ref() {
                LTermInner::Compound(obj) => obj.as_any().type_id(),
                _ => unreachable!(),
            }
        };
    }
    ID.with(|i| *i)
}

// ---------------------------------------------------------------------------------------
// goal kinds

thread_local! {
    /// How conjunctions and disjunctions are built: 0 = what the macros expand to (conde / cond
    /// operators, InferredConj), 1 = the constructor functions of the public API
    /// (Disj::from_conjunctions / Conj::from_vec and their DFS twins), 2 = pairwise nesting with
    /// Disj::new / Conj::new. The three must denote the same goal.
    pub static API_MODE: std::cell::Cell<u8> = std::cell::Cell::new(0);
}

/// run `f` with the given construction mode
pub fn with_api_mode<T>(mode: u8, f: impl FnOnce() -> T) -> T {
    let old = API_MODE.with(|m| m.replace(mode));
    let r = f();
    API_MODE.with(|m| m.set(old));
    r
}

pub trait Kinded: AnyGoal<U, E> {
    const DFS: bool;
    /// embed a BFS-only goal (conda, condu, onceo, loop, always, never, matche…)
    fn from_bfs(g: Goal<U, E>) -> Self;
    fn disj(clauses: &[&[Self]]) -> Self;
    /// a disjunction / conjunction through the constructor functions (mode 1 or 2)
    fn disj_fn(clauses: &[&[Self]], mode: u8) -> Self;
    fn conj_fn(goals: Vec<Self>, mode: u8) -> Self;
}

impl Kinded for Goal<U, E> {
    const DFS: bool = false;
    fn from_bfs(g: Goal<U, E>) -> Self {
        g
    }
    fn disj(clauses: &[&[Self]]) -> Self {
        // `conde { … }` in surface syntax
        proto_vulcan::operator::conde::conde(OperatorParam::new(clauses))
    }
    fn disj_fn(clauses: &[&[Self]], mode: u8) -> Self {
        use proto_vulcan::operator::conj::Conj;
        use proto_vulcan::operator::disj::Disj;
        if mode == 1 {
            Disj::from_conjunctions(clauses)
        } else {
            let mut gs: Vec<Goal<U, E>> = clauses.iter().map(|c| if c.is_empty() { relation::succeed::<U, E, Goal<U, E>>().cast_into() } else { Conj::from_array(c) }).collect();
            let mut acc = match gs.pop() {
                Some(g) => g,
                None => return relation::fail::<U, E, Goal<U, E>>().cast_into(),
            };
            while let Some(g) = gs.pop() {
                acc = Disj::new(g, acc);
            }
            acc
        }
    }
    fn conj_fn(mut goals: Vec<Self>, mode: u8) -> Self {
        use proto_vulcan::operator::conj::Conj;
        if goals.is_empty() {
            return relation::succeed::<U, E, Goal<U, E>>().cast_into();
        }
        if mode == 1 {
            Conj::from_vec(goals)
        } else {
            let mut acc = match goals.pop() {
                Some(g) => g,
                None => return relation::succeed::<U, E, Goal<U, E>>().cast_into(),
            };
            while let Some(g) = goals.pop() {
                acc = Conj::new(g, acc);
            }
            acc
        }
    }
}

impl Kinded for DFSGoal<U, E> {
    const DFS: bool = true;
    fn from_bfs(_g: Goal<U, E>) -> Self {
        unreachable!("BFS-only operator inside a DFS goal (generator bug)")
    }
    fn disj(clauses: &[&[Self]]) -> Self {
        // `cond { … }` in surface syntax inside dfs
        proto_vulcan::operator::conde::cond(OperatorParam::new(clauses)).cast_into()
    }
    fn disj_fn(clauses: &[&[Self]], mode: u8) -> Self {
        use proto_vulcan::operator::conj::DFSConj;
        use proto_vulcan::operator::disj::DFSDisj;
        if mode == 1 {
            DFSDisj::from_conjunctions(clauses)
        } else {
            let mut gs: Vec<DFSGoal<U, E>> = clauses.iter().map(|c| if c.is_empty() { relation::succeed::<U, E, DFSGoal<U, E>>().cast_into() } else { DFSConj::from_array(c) }).collect();
            let mut acc = match gs.pop() {
                Some(g) => g,
                None => return relation::fail::<U, E, DFSGoal<U, E>>().cast_into(),
            };
            while let Some(g) = gs.pop() {
                acc = DFSDisj::new(g, acc);
            }
            acc
        }
    }
    fn conj_fn(mut goals: Vec<Self>, mode: u8) -> Self {
        use proto_vulcan::operator::conj::DFSConj;
        if goals.is_empty() {
            return relation::succeed::<U, E, DFSGoal<U, E>>().cast_into();
        }
        if mode == 1 {
            DFSConj::from_vec(goals)
        } else {
            let mut acc = match goals.pop() {
                Some(g) => g,
                None => return relation::succeed::<U, E, DFSGoal<U, E>>().cast_into(),
            };
            while let Some(g) = goals.pop() {
                acc = DFSConj::new(g, acc);
            }
            acc
        }
    }
}

// ---------------------------------------------------------------------------------------
// environment

#[derive(Clone, Default)]
pub struct Env {
    pub vars: Rc<RefCell<HashMap<VarId, LT>>>,
    /// variables that denote typed compound variables are plain LTerm variables here
    pub scoped: Vec<(VarId, LT)>,
}

impl Env {
    pub fn new() -> Env {
        Env { vars: Rc::new(RefCell::new(HashMap::new())), scoped: vec![] }
    }

    /// Lexical lookup: innermost binding first, then program-level variables (created on
    /// first use — query variables and decoder-introduced globals).
    pub fn var(&self, v: VarId) -> LT {
        for (id, t) in self.scoped.iter().rev() {
            if *id == v {
                return t.clone();
            }
        }
        let mut m = self.vars.borrow_mut();
        m.entry(v).or_insert_with(|| if v >= ast::WILD_BASE { LTerm::any() } else { LTerm::var(leak_name(v)) }).clone()
    }

    pub fn with(&self, binds: Vec<(VarId, LT)>) -> Env {
        let mut e = self.clone();
        e.scoped.extend(binds);
        e
    }
}

fn leak_name(v: VarId) -> &'static str {
    // a small interned table: names are only cosmetic
    const NAMES: [&str; 16] = ["v0", "v1", "v2", "v3", "v4", "v5", "v6", "v7", "v8", "v9", "v10", "v11", "v12", "v13", "v14", "v15"];
    NAMES.get(v as usize).copied().unwrap_or("vN")
}

pub fn build_term(t: &Term, env: &Env) -> LT {
    match t {
        Term::Int(i) => LTerm::from(*i as isize),
        Term::Bool(b) => LTerm::from(*b),
        Term::Char(c) => LTerm::from(*c),
        Term::Str(s) => LTerm::from(s.as_str()),
        Term::Var(v) => env.var(*v),
        Term::Nil => LTerm::empty_list(),
        Term::Cons(h, tl) => LTerm::cons(build_term(h, env), build_term(tl, env)),
        Term::Cmp(k, a) => {
            let b: Vec<LT> = a.iter().map(|x| build_term(x, env)).collect();
            match k {
                Kind::Pair => cmp::Pair_compound::_InnerPair(b[0].clone(), b[1].clone()).into(),
                Kind::Duo => cmp::Duo_compound::_InnerDuo(b[0].clone(), b[1].clone()).into(),
                Kind::Triple => cmp::Triple_compound::_InnerTriple(b[0].clone(), b[1].clone(), b[2].clone()).into(),
                Kind::Rec => cmp::Rec_compound::_InnerRec { a: b[0].clone(), b: b[1].clone() }.into(),
                Kind::Node => {
                    // typed fields: wrap the LTerm children into Node values by unification-free
                    // conversion (a Node is a newtype over LTerm)
                    let l: cmp::Node<U, E> = node_from(b[1].clone());
                    let r: cmp::Node<U, E> = node_from(b[2].clone());
                    cmp::Node_compound::_InnerNode(b[0].clone(), l, r).into()
                }
                Kind::Tuple => (b[0].clone(), b[1].clone()).into(),
                Kind::Pair2 => cmp2::Pair_compound::_InnerPair(b[0].clone(), b[1].clone()).into(),
                Kind::Wrap => {
                    let opt: Option<cmp::Pair<U, E>> = match &a[1] {
                        Term::Nil => None,
                        Term::Cmp(Kind::Pair, p) => Some(cmp::Pair_compound::_InnerPair(build_term(&p[0], env), build_term(&p[1], env)).into()),
                        other => panic!("generator bug: Wrap's Option field must be [] or a Pair, got {:?}", other),
                    };
                    cmp::Wrap_compound::_InnerWrap(b[0].clone(), opt).into()
                }
            }
        }
    }
}

fn node_from(t: LT) -> cmp::Node<U, E> {
    cmp::node_wrap(t)
}

/// Convert an implementation term back to the AST (answers). `names` maps implementation
/// variables to canonical ids by first occurrence.
pub struct Unbuilder {
    pub ids: HashMap<proto_vulcan::lterm::VarID, VarId>,
    pub non_any: Vec<String>,
}

impl Unbuilder {
    pub fn new() -> Unbuilder {
        Unbuilder { ids: HashMap::new(), non_any: vec![] }
    }

    pub fn term<U2: User, E2: Engine<U2>>(&mut self, t: &LTerm<U2, E2>) -> Term {
        match t.as_ref() {
            LTermInner::Val(LValue::Number(n)) => Term::Int(*n as i64),
            LTermInner::Val(LValue::Bool(b)) => Term::Bool(*b),
            LTermInner::Val(LValue::Char(c)) => Term::Char(*c),
            LTermInner::Val(LValue::String(s)) => Term::Str(s.clone()),
            LTermInner::Var(id, name) => {
                if *name != "_" {
                    self.non_any.push(format!("{}", name));
                }
                let n = self.ids.len() as VarId;
                Term::Var(*self.ids.entry(*id).or_insert(n))
            }
            LTermInner::User(_) => Term::Str("<user>".into()),
            LTermInner::Empty => Term::Nil,
            LTermInner::Cons(h, tl) => {
                // iterative over the spine to keep the stack shallow on long lists
                let mut items = vec![self.term(h)];
                let mut cur = tl;
                loop {
                    match cur.as_ref() {
                        LTermInner::Cons(h2, t2) => {
                            items.push(self.term(h2));
                            cur = t2;
                        }
                        _ => break,
                    }
                }
                let tail = self.term(cur);
                Term::improper(items, tail)
            }
            LTermInner::Projection(p) => Term::Cmp(Kind::Tuple, vec![Term::Str("<projection>".into()), self.term(p)]),
            LTermInner::Compound(obj) => {
                let kind = if obj.as_any().type_id() == pair2_type_id() { Some(Kind::Pair2) } else { Kind::from_type_name(obj.type_name()) };
                let mut args = vec![];
                for child in obj.children() {
                    match child.as_term() {
                        Some(lt) => args.push(self.term(lt)),
                        None => {
                            // a non-term field object: Option<T> (None -> [], Some(x) -> x)
                            match child.type_name() {
                                "None" => args.push(Term::Nil),
                                "Some" => {
                                    let inner: Vec<Term> = child.children().map(|c| match c.as_term() { Some(lt) => self.term(lt), None => Term::Str("<object>".into()) }).collect();
                                    args.push(inner.into_iter().next().unwrap_or(Term::Str("<empty Some>".into())));
                                }
                                _ => args.push(Term::Str("<object>".into())),
                            }
                        }
                    }
                }
                match kind {
                    Some(k) if k.arity() == args.len() => Term::Cmp(k, args),
                    _ => Term::Cmp(Kind::Tuple, vec![Term::Str(format!("<unknown compound {}>", obj.type_name())), Term::list(args)]),
                }
            }
        }
    }
}

// ---------------------------------------------------------------------------------------
// harness-defined relations, written with the macros like the library's own relations

pub fn nat<U2: User, E2: Engine<U2>, G: AnyGoal<U2, E2>>(x: LTerm<U2, E2>) -> InferredGoal<U2, E2, G> {
    use proto_vulcan::operator::conde::cond;
    proto_vulcan_closure!(cond {
        x == [],
        |y| { x == [1 | y], nat(y) }
    })
}

pub fn lenle<U2: User, E2: Engine<U2>, G: AnyGoal<U2, E2>>(l: LTerm<U2, E2>, n: LTerm<U2, E2>) -> InferredGoal<U2, E2, G> {
    use proto_vulcan::operator::conde::cond;
    proto_vulcan_closure!(cond {
        l == [],
        |h, t, m| { n == [1 | m], l == [h | t], lenle(t, m) }
    })
}

pub fn downfrom<U2: User, E2: Engine<U2>, G: AnyGoal<U2, E2>>(n: LTerm<U2, E2>, l: LTerm<U2, E2>) -> InferredGoal<U2, E2, G> {
    use proto_vulcan::operator::conde::cond;
    proto_vulcan_closure!(cond {
        [n == [], l == []],
        |m, t| { n == [1 | m], l == [n | t], downfrom(m, t) }
    })
}

pub fn memberrev<U2: User, E2: Engine<U2>, G: AnyGoal<U2, E2>>(x: LTerm<U2, E2>, l: LTerm<U2, E2>) -> InferredGoal<U2, E2, G> {
    use proto_vulcan::operator::conde::cond;
    proto_vulcan_closure!(cond {
        |h, t| { l == [h | t], memberrev(x, t) },
        |t| { l == [x | t] }
    })
}

pub fn zeros<U2: User, E2: Engine<U2>, G: AnyGoal<U2, E2>>(l: LTerm<U2, E2>) -> InferredGoal<U2, E2, G> {
    use proto_vulcan::operator::conde::cond;
    proto_vulcan_closure!(cond {
        l == [],
        |h, t| { l == [h | t], zeros(t), h == 0 }
    })
}

pub fn nrev<U2: User, E2: Engine<U2>, G: AnyGoal<U2, E2>>(l: LTerm<U2, E2>, r: LTerm<U2, E2>) -> InferredGoal<U2, E2, G> {
    use proto_vulcan::operator::conde::cond;
    use proto_vulcan::relation::append;
    proto_vulcan_closure!(cond {
        [l == [], r == []],
        |h, t, rt| { l == [h | t], nrev(t, rt), append(rt, [h], r) }
    })
}

pub fn deepnever<U2: User, E2: Engine<U2>>(l: LTerm<U2, E2>) -> proto_vulcan::goal::Goal<U2, E2> {
    use proto_vulcan::relation::never;
    proto_vulcan_closure!(conde {
        [l == [], never()],
        |h, t| { l == [h | t], deepnever(t), h == 0 }
    })
}

pub fn diverge<U2: User, E2: Engine<U2>, G: AnyGoal<U2, E2>>() -> InferredGoal<U2, E2, G> {
    proto_vulcan_closure!(diverge())
}

// ---------------------------------------------------------------------------------------
// goals

fn fn_goal<G: Kinded>(f: impl Fn(&Solver<U, E>, St) -> Stream<U, E> + 'static) -> G {
    FnGoal::new::<G>(Box::new(f)).cast_into()
}

fn unit_or_empty(r: SResult<U, E>) -> Stream<U, E> {
    match r {
        Ok(s) => Stream::unit(Box::new(s)),
        Err(_) => Stream::empty(),
    }
}

/// The goals of one list, built in order. Two structurally identical closures in a row are ONE
/// goal object used twice (clone), as in a program that keeps a goal in a Rust variable: every
/// evaluation of a closure must build its body anew.
pub fn build_list<G: Kinded>(gs: &[ast::Goal], env: &Env) -> Vec<G> {
    let mut v: Vec<G> = Vec::with_capacity(gs.len());
    for (i, g) in gs.iter().enumerate() {
        if i > 0 && matches!(g, ast::Goal::Closure(_)) && gs[i - 1] == *g {
            let again = v[i - 1].clone();
            v.push(again);
        } else {
            v.push(build_goal::<G>(g, env));
        }
    }
    v
}

pub fn build_conj<G: Kinded>(gs: &[ast::Goal], env: &Env) -> G {
    let v: Vec<G> = build_list::<G>(gs, env);
    match API_MODE.with(|m| m.get()) {
        0 => InferredConj::from_array(&v).cast_into(),
        mode => G::conj_fn(v, mode),
    }
}

fn build_clauses<G: Kinded>(cl: &[Vec<ast::Goal>], env: &Env) -> Vec<Vec<G>> {
    cl.iter().map(|c| build_list::<G>(c, env)).collect()
}

fn as_slices<G>(v: &[Vec<G>]) -> Vec<&[G]> {
    v.iter().map(|c| &c[..]).collect()
}

pub fn build_goal<G: Kinded>(g: &ast::Goal, env: &Env) -> G {
    use ast::Goal as A;
    match g {
        A::Succeed => relation::succeed::<U, E, G>().cast_into(),
        A::Fail => relation::fail::<U, E, G>().cast_into(),
        A::Eq(a, b) => relation::eq::<U, E, G>(build_term(a, env), build_term(b, env)).cast_into(),
        A::Diseq(a, b) => relation::diseq::<U, E, G>(build_term(a, env), build_term(b, env)).cast_into(),
        A::Conj(gs) => build_conj::<G>(gs, env),
        A::Conde(cl) => {
            let c = build_clauses::<G>(cl, env);
            match API_MODE.with(|m| m.get()) {
                0 => G::disj(&as_slices(&c)),
                mode => G::disj_fn(&as_slices(&c), mode),
            }
        }
        A::Fresh(vs, body) => {
            // as Fresh::to_tokens: the variables are created when the goal is constructed
            let binds: Vec<(VarId, LT)> = vs.iter().map(|v| (*v, LTerm::var(leak_name(*v)))).collect();
            let lts: Vec<LT> = binds.iter().map(|(_, t)| t.clone()).collect();
            let inner = env.with(binds);
            let b: G = build_conj::<G>(body, &inner);
            Fresh::new(lts, b).cast_into()
        }
        A::Closure(body) => {
            let body: Rc<Vec<ast::Goal>> = Rc::new(body.clone());
            let env = env.clone();
            Closure::new(ClosureOperatorParam::new(Box::new(move || build_conj::<G>(&body, &env)))).cast_into()
        }
        A::Dfs(body) => {
            let v: Vec<DFSGoal<U, E>> = build_list::<DFSGoal<U, E>>(body, env);
            // `dfs { g1, g2, .. }` (one clause per goal) or `dfs { [g1, g2, ..] }` (one bracketed
            // clause): both are the conjunction of the goals; which spelling is used depends on
            // the body only
            let bracketed = v.len() >= 2 && body.iter().map(|g| g.count()).sum::<usize>() % 2 == 0;
            let cl: Vec<&[DFSGoal<U, E>]> = if bracketed { vec![&v[..]] } else { v.iter().map(|g| std::slice::from_ref(g)).collect() };
            proto_vulcan::operator::dfs::<U, E, G>(OperatorParam::new(&cl)).cast_into()
        }
        A::Conda(cl) => {
            let c = build_clauses::<Goal<U, E>>(cl, env);
            G::from_bfs(proto_vulcan::operator::conda(OperatorParam::new(&as_slices(&c))))
        }
        A::Condu(cl) => {
            let c = build_clauses::<Goal<U, E>>(cl, env);
            G::from_bfs(proto_vulcan::operator::condu(OperatorParam::new(&as_slices(&c))))
        }
        A::Onceo(body) => {
            let v: Vec<Goal<U, E>> = body.iter().map(|g| build_goal::<Goal<U, E>>(g, env)).collect();
            let cl: Vec<&[Goal<U, E>]> = v.iter().map(|g| std::slice::from_ref(g)).collect();
            G::from_bfs(proto_vulcan::operator::onceo(OperatorParam::new(&cl)))
        }
        A::Anyo(body) => {
            let v: Vec<Goal<U, E>> = body.iter().map(|g| build_goal::<Goal<U, E>>(g, env)).collect();
            let cl: Vec<&[Goal<U, E>]> = v.iter().map(|g| std::slice::from_ref(g)).collect();
            G::from_bfs(proto_vulcan::operator::anyo(OperatorParam::new(&cl)))
        }
        A::Always => G::from_bfs(relation::always::<U, E>()),
        A::Never => G::from_bfs(relation::never::<U, E>()),
        A::Call(r, args) => {
            let a: Vec<LT> = args.iter().map(|t| build_term(t, env)).collect();
            match r {
                Rel::Member => relation::member::<U, E, G>(a[0].clone(), a[1].clone()).cast_into(),
                Rel::Member1 => relation::member1::<U, E, G>(a[0].clone(), a[1].clone()).cast_into(),
                Rel::Append => relation::append::<U, E, G>(a[0].clone(), a[1].clone(), a[2].clone()).cast_into(),
                Rel::Rember => relation::rember::<U, E, G>(a[0].clone(), a[1].clone(), a[2].clone()).cast_into(),
                Rel::Permute => relation::permute::<U, E, G>(a[0].clone(), a[1].clone()).cast_into(),
                Rel::Distinct => relation::distinct::<U, E, G>(a[0].clone()).cast_into(),
                Rel::Cons => relation::cons::<U, E, G>(a[0].clone(), a[1].clone(), a[2].clone()).cast_into(),
                Rel::First => relation::first::<U, E, G>(a[0].clone(), a[1].clone()).cast_into(),
                Rel::Rest => relation::rest::<U, E, G>(a[0].clone(), a[1].clone()).cast_into(),
                Rel::Empty => relation::empty::<U, E, G>(a[0].clone()).cast_into(),
                Rel::Nat => nat::<U, E, G>(a[0].clone()).cast_into(),
                Rel::LenLe => lenle::<U, E, G>(a[0].clone(), a[1].clone()).cast_into(),
                Rel::Downfrom => downfrom::<U, E, G>(a[0].clone(), a[1].clone()).cast_into(),
                Rel::Diverge => diverge::<U, E, G>().cast_into(),
                Rel::MemberRev => memberrev::<U, E, G>(a[0].clone(), a[1].clone()).cast_into(),
                Rel::Zeros => zeros::<U, E, G>(a[0].clone()).cast_into(),
                Rel::Nrev => nrev::<U, E, G>(a[0].clone(), a[1].clone()).cast_into(),
                Rel::DeepNever => G::from_bfs(deepnever::<U, E>(a[0].clone())),
            }
        }
        A::Fd(f) => {
            let t = |x: &Term| build_term(x, env);
            match f {
                FdGoal::InFd(x, d) => {
                    let d: Vec<isize> = d.iter().map(|v| *v as isize).collect();
                    relation::infd::<U, E, G>(t(x), &d).cast_into()
                }
                FdGoal::InFdRange(x, a, b) => relation::infdrange::<U, E, G>(t(x), &((*a as isize)..=(*b as isize))).cast_into(),
                FdGoal::Lte(a, b) => relation::ltefd::<U, E, G>(t(a), t(b)).cast_into(),
                FdGoal::Lt(a, b) => relation::ltfd::<U, E, G>(t(a), t(b)).cast_into(),
                FdGoal::Plus(a, b, c) => relation::plusfd::<U, E, G>(t(a), t(b), t(c)).cast_into(),
                FdGoal::Minus(a, b, c) => relation::minusfd::<U, E, G>(t(a), t(b), t(c)).cast_into(),
                FdGoal::Times(a, b, c) => relation::timesfd::<U, E, G>(t(a), t(b), t(c)).cast_into(),
                FdGoal::Diseq(a, b) => relation::diseqfd::<U, E, G>(t(a), t(b)).cast_into(),
                FdGoal::Distinct(a) => relation::distinctfd::<U, E, G>(t(a)).cast_into(),
            }
        }
        A::Z(z) => {
            let t = |x: &Term| build_term(x, env);
            match z {
                ZGoal::Plus(a, b, c) => relation::plusz::<U, E, G>(t(a), t(b), t(c)).cast_into(),
                ZGoal::Times(a, b, c) => relation::timesz::<U, E, G>(t(a), t(b), t(c)).cast_into(),
            }
        }
        A::Project(vs, body) => {
            // as Project::to_tokens: shadow each variable by a Projection term created at
            // goal construction, build the body with the shadowing names
            let binds: Vec<(VarId, LT)> = vs.iter().map(|v| (*v, LTerm::projection(env.var(*v)))).collect();
            let lts: Vec<LT> = binds.iter().map(|(_, t)| t.clone()).collect();
            let inner = env.with(binds);
            let b: G = build_conj::<G>(body, &inner);
            Project::new(lts, b).cast_into()
        }
        A::NonRel(n) => match n {
            NonRel::SqEq(x, q) => {
                let (x, q) = (build_term(x, env), build_term(q, env));
                fn_goal::<G>(move |_s, state| match x.get_number() {
                    Some(n) => unit_or_empty(state.unify(&q, &LTerm::from(n * n))),
                    None => Stream::empty(),
                })
            }
            NonRel::AddConst(x, k, q) => {
                let (x, q, k) = (build_term(x, env), build_term(q, env), *k as isize);
                fn_goal::<G>(move |_s, state| match x.get_number() {
                    Some(n) => unit_or_empty(state.unify(&q, &LTerm::from(n + k))),
                    None => Stream::empty(),
                })
            }
            NonRel::IsGroundInt(x) => {
                let x = build_term(x, env);
                fn_goal::<G>(move |_s, state| if x.is_number() { Stream::unit(Box::new(state)) } else { Stream::empty() })
            }
            NonRel::IsGroundTerm(x) => {
                fn ground(t: &LT) -> bool {
                    match t.as_ref() {
                        LTermInner::Var(..) | LTermInner::Projection(_) => false,
                        LTermInner::Cons(h, tl) => ground(h) && ground(tl),
                        LTermInner::Compound(obj) => obj.children().all(|c| c.as_term().map(ground).unwrap_or(true)),
                        _ => true,
                    }
                }
                let x = build_term(x, env);
                fn_goal::<G>(move |_s, state| if ground(&x) { Stream::unit(Box::new(state)) } else { Stream::empty() })
            }
        },
        A::For(x, coll, body) => {
            let items: Vec<LT> = coll.iter().map(|t| build_term(t, env)).collect();
            let body: Rc<Vec<ast::Goal>> = Rc::new(body.clone());
            let env = env.clone();
            let x = *x;
            let f: Box<dyn Fn(LT) -> G> = Box::new(move |e: LT| {
                let inner = env.with(vec![(x, e)]);
                build_conj::<G>(&body, &inner)
            });
            // alternate between the two collection types the operator accepts
            if coll.len() % 2 == 0 {
                proto_vulcan::operator::everyg(ForOperatorParam::new(items, f)).cast_into()
            } else {
                let l: LT = LTerm::from_vec(items);
                proto_vulcan::operator::everyg(ForOperatorParam::new(l, f)).cast_into()
            }
        }
        A::ForIn(x, coll, body) => {
            // the collection is one term (below `project` a Projection cell that holds the walked
            // value by the time the goal is solved); everyg iterates it when the goal is solved
            let l: LT = build_term(coll, env);
            let body: Rc<Vec<ast::Goal>> = Rc::new(body.clone());
            let env = env.clone();
            let x = *x;
            let f: Box<dyn Fn(LT) -> G> = Box::new(move |e: LT| {
                let inner = env.with(vec![(x, e)]);
                build_conj::<G>(&body, &inner)
            });
            proto_vulcan::operator::everyg(ForOperatorParam::new(l, f)).cast_into()
        }
        A::Match(kind, t, arms) => {
            // PatternMatchOperator::to_tokens: per arm and alternative a clause
            // [eq(__term__, pattern), body…] with the pattern variables created as plain
            // variables at goal construction
            let tm = build_term(t, env);
            let bfs_only = !matches!(kind, MatchKind::Match);
            let mut clauses: Vec<Vec<Goal<U, E>>> = vec![];
            let mut clauses_g: Vec<Vec<G>> = vec![];
            for a in arms {
                for p in &a.patterns {
                    let mut pv = vec![];
                    p.vars(&mut pv);
                    let binds: Vec<(VarId, LT)> = pv.iter().map(|v| (*v, LTerm::var(leak_name(*v)))).collect();
                    let inner = env.with(binds);
                    let pat = build_term(p, &inner);
                    if bfs_only {
                        let mut gs: Vec<Goal<U, E>> = vec![relation::eq::<U, E, Goal<U, E>>(tm.clone(), pat).cast_into()];
                        for g in &a.body {
                            gs.push(build_goal::<Goal<U, E>>(g, &inner));
                        }
                        clauses.push(gs);
                    } else {
                        let mut gs: Vec<G> = vec![relation::eq::<U, E, G>(tm.clone(), pat).cast_into()];
                        for g in &a.body {
                            gs.push(build_goal::<G>(g, &inner));
                        }
                        clauses_g.push(gs);
                    }
                }
            }
            match kind {
                MatchKind::Match => {
                    let c: InferredGoal<U, E, G> = Conde::from_conjunctions(&as_slices(&clauses_g));
                    c.cast_into()
                }
                MatchKind::Matche => G::from_bfs(proto_vulcan::operator::matche(PatternMatchOperatorParam::new(&as_slices(&clauses)))),
                MatchKind::Matcha => G::from_bfs(proto_vulcan::operator::matcha(PatternMatchOperatorParam::new(&as_slices(&clauses)))),
                MatchKind::Matchu => G::from_bfs(proto_vulcan::operator::matchu(PatternMatchOperatorParam::new(&as_slices(&clauses)))),
            }
        }
        A::Probe(id) => {
            let id = *id;
            fn_goal::<G>(move |solver, mut state| {
                let ctx = solver.context();
                ctx.probes.set(ctx.probes.get() + 1);
                let stored = state.cstore_ref().iter().count();
                if stored > ctx.max_stored.get() {
                    ctx.max_stored.set(stored);
                }
                if ctx.check_lifecycle.get() {
                    let (w, t) = (state.user_state.with, state.user_state.take);
                    if w - t != stored as i64 {
                        ctx.lifecycle.borrow_mut().push(format!("at probe {}: with_constraint={} take_constraint={} stored={}", id, w, t, stored));
                    }
                }
                let prev = state.user_state.trace.take();
                state.user_state.trace = Some(Rc::new(TraceNode { id, prev }));
                Stream::unit(Box::new(state))
            })
        }
        A::UserUpd(k) => {
            let k = *k;
            fn_goal::<G>(move |_s, mut state| {
                state.user_state.counter += k;
                Stream::unit(Box::new(state))
            })
        }
        A::Ticket(t) => {
            let t = build_term(t, env);
            fn_goal::<G>(move |solver, state| {
                let ctx = solver.context();
                let n = ctx.ticket.get();
                ctx.ticket.set(n + 1);
                unit_or_empty(state.unify(&t, &LTerm::from(n as isize)))
            })
        }
        A::ReadUser(t) => {
            let t = build_term(t, env);
            fn_goal::<G>(move |_s, state| {
                let c = state.user_state.counter;
                unit_or_empty(state.unify(&t, &LTerm::from(c as isize)))
            })
        }
    }
}
