use pvh::framework::{self, Tier, DEFAULT_SEED};

fn usage() -> ! {
    eprintln!("usage: pvcheck run --property <ID> --tier quick|thorough [--seed N]\n       pvcheck replay <file> [--strict]\n       pvcheck list");
    std::process::exit(2)
}

fn main() {
    pvh::guard::install();
    let args: Vec<String> = std::env::args().collect();
    if args.len() < 2 {
        usage();
    }
    let props = pvh::props::all();
    match args[1].as_str() {
        "list" => {
            for p in &props {
                println!("{}", p.id);
            }
        }
        "run" => {
            let mut id = None;
            let mut tier = Tier::Quick;
            let mut seed = std::env::var("VERIF_SEED")
                .ok()
                .and_then(|s| s.trim().parse::<u64>().ok())
                .unwrap_or(DEFAULT_SEED);
            let mut i = 2;
            while i < args.len() {
                match args[i].as_str() {
                    "--property" => {
                        id = args.get(i + 1).cloned();
                        i += 2;
                    }
                    "--tier" => {
                        tier = match args.get(i + 1).map(|s| s.as_str()) {
                            Some("thorough") => Tier::Thorough,
                            _ => Tier::Quick,
                        };
                        i += 2;
                    }
                    "--seed" => {
                        seed = args.get(i + 1).and_then(|s| s.parse().ok()).unwrap_or(seed);
                        i += 2;
                    }
                    _ => usage(),
                }
            }
            let id = id.unwrap_or_else(|| usage());
            let prop = match props.iter().find(|p| p.id == id) {
                Some(p) => p,
                None => {
                    eprintln!("unknown property {}", id);
                    std::process::exit(2);
                }
            };
            let r = framework::run_property(prop, tier, seed);
            std::process::exit(r.exit);
        }
        "worker" => {
            // child process of the C09 cross-process family: pvcheck worker C09 <hex bytes>
            let bytes = pvh::source::unhex(args.get(3).map(|s| s.as_str()).unwrap_or(""));
            println!("{}", pvh::props::c09::worker(&bytes));
        }
        "replay" => {
            let path = args.get(2).cloned().unwrap_or_else(|| usage());
            let strict = args.iter().any(|a| a == "--strict");
            // on a thread with the workers' stack size (scale cases recurse as deep as their terms)
            let code = std::thread::Builder::new()
                .stack_size(512 << 20)
                .spawn(move || framework::replay(&pvh::props::all(), &path, strict))
                .ok()
                .and_then(|h| h.join().ok())
                .unwrap_or(2);
            std::process::exit(code);
        }
        _ => usage(),
    }
}
