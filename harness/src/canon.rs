//! Canonical answers and answer comparison: isomorphism up to renaming on the term part
//! (forced by first occurrence), constraint sets compared syntactically on solved forms and,
//! where that fails, semantically by enumerating assignments over a finite universe
//! (variables that occur only in constraints are existential).

use crate::ast::{Goal, Program, Term, VarId};
use crate::model::interp::RAnswer;
use crate::model::unify::{unify, Subst};
use crate::run::Answer;
use std::collections::BTreeMap;

/// Canonical form of a reference answer: variables numbered by first occurrence in the
/// term tuple, then by first occurrence in the constraints.
pub fn from_ref(r: &RAnswer) -> Answer {
    let mut map: BTreeMap<VarId, VarId> = BTreeMap::new();
    let mut order = vec![];
    for t in &r.terms {
        t.vars(&mut order);
    }
    for c in &r.cons {
        for (a, b) in c {
            a.vars(&mut order);
            b.vars(&mut order);
        }
    }
    for (i, v) in order.iter().enumerate() {
        map.insert(*v, i as VarId);
    }
    let rn = |t: &Term| t.map_vars(&mut |v| Term::Var(*map.get(&v).unwrap_or(&v)));
    let terms = r.terms.iter().map(rn).collect();
    let mut cons: Vec<Vec<(Term, Term)>> = r
        .cons
        .iter()
        .map(|c| {
            let mut p: Vec<(Term, Term)> = c.iter().map(|(a, b)| (rn(a), rn(b))).collect();
            p.sort();
            p
        })
        .collect();
    cons.sort();
    Answer { terms, cons }
}

pub fn term_var_count(a: &Answer) -> usize {
    let mut v = vec![];
    for t in &a.terms {
        t.vars(&mut v);
    }
    v.len()
}

fn all_vars(a: &Answer) -> Vec<VarId> {
    let mut v = vec![];
    for t in &a.terms {
        t.vars(&mut v);
    }
    for c in &a.cons {
        for (x, y) in c {
            x.vars(&mut v);
            y.vars(&mut v);
        }
    }
    v
}

/// Solved form of one constraint ¬(∧ pairs): Some(bindings) where the constraint is
/// ¬(∧ v = t); None if the pairs cannot be made equal at all (constraint trivially true).
/// An empty binding list means the constraint is unsatisfiable (the pairs are already equal).
pub fn solved_form(c: &[(Term, Term)]) -> Option<Vec<(VarId, Term)>> {
    let mut s = Subst::new();
    for (a, b) in c {
        s = unify(&s, a, b)?;
    }
    Some(s.keys().into_iter().map(|k| (k, s.apply(&Term::Var(k)))).collect())
}

/// Sorted list of solved forms; Err(()) if some constraint is unsatisfiable.
pub fn normal_cons(a: &Answer) -> Result<Vec<Vec<(VarId, Term)>>, ()> {
    let mut out = vec![];
    for c in &a.cons {
        match solved_form(c) {
            None => {}
            Some(b) if b.is_empty() => return Err(()),
            Some(b) => out.push(b),
        }
    }
    out.sort();
    out.dedup();
    Ok(out)
}

#[derive(Clone, Debug)]
pub struct Universe(pub Vec<Term>);

fn collect_atoms(t: &Term, atoms: &mut Vec<Term>, grounds: &mut Vec<Term>, templates: &mut Vec<Term>) {
    match t {
        Term::Var(_) => {}
        Term::Cons(h, tl) => {
            if t.is_ground() {
                if !grounds.contains(t) {
                    grounds.push(t.clone());
                }
            } else if !templates.contains(t) {
                templates.push(t.clone());
            }
            collect_atoms(h, atoms, grounds, templates);
            collect_atoms(tl, atoms, grounds, templates);
        }
        Term::Cmp(_, a) => {
            if t.is_ground() {
                if !grounds.contains(t) {
                    grounds.push(t.clone());
                }
            } else if !templates.contains(t) {
                templates.push(t.clone());
            }
            for x in a {
                collect_atoms(x, atoms, grounds, templates);
            }
        }
        Term::Nil => {}
        atom => {
            if !atoms.contains(atom) {
                atoms.push(atom.clone());
            }
        }
    }
}

pub fn fresh_atom(i: usize) -> Term {
    Term::Int(900 + i as i64)
}

/// Universe for comparing answers of the given programs: all program constants, `fresh`
/// fresh atoms (more than the number of disequalities), [], ground sub-terms, and groundings
/// of the non-ground program terms; capped at `cap` elements (atoms first).
pub fn universe(programs: &[&Program], extra_terms: &[&Term], fresh: usize, cap: usize) -> Universe {
    let mut atoms = vec![];
    let mut grounds = vec![];
    let mut templates = vec![];
    for p in programs {
        for g in &p.body {
            g.visit_terms(&mut |t| collect_atoms(t, &mut atoms, &mut grounds, &mut templates));
        }
    }
    for t in extra_terms {
        collect_atoms(t, &mut atoms, &mut grounds, &mut templates);
    }
    let mut u: Vec<Term> = vec![];
    let push = |t: Term, u: &mut Vec<Term>| {
        if !u.contains(&t) && u.len() < cap {
            u.push(t);
        }
    };
    for i in 0..fresh {
        push(fresh_atom(i), &mut u);
    }
    for a in atoms.iter() {
        push(a.clone(), &mut u);
    }
    push(Term::Nil, &mut u);
    // smaller ground terms first
    grounds.sort_by_key(|t| t.size());
    for g in grounds {
        push(g, &mut u);
    }
    templates.sort_by_key(|t| t.size());
    let fill = [fresh_atom(0), atoms.first().cloned().unwrap_or(Term::Nil), Term::Nil];
    for f in fill.iter() {
        for t in &templates {
            push(t.map_vars(&mut |_| f.clone()), &mut u);
        }
    }
    Universe(u)
}

pub fn count_diseqs(p: &Program) -> usize {
    let mut n = 0;
    fn walk(g: &Goal, n: &mut usize) {
        if matches!(g, Goal::Diseq(..)) {
            *n += 1;
        }
        if let Goal::Call(..) = g {
            *n += 2;
        }
        g.for_children(&mut |c| walk(c, n));
    }
    for g in &p.body {
        walk(g, &mut n);
    }
    n
}

fn violated(c: &[(Term, Term)], asg: &BTreeMap<VarId, Term>) -> bool {
    // ¬(∧ pairs equal) is violated iff every pair is equal under the assignment
    c.iter().all(|(a, b)| {
        let f = &mut |v: VarId| asg.get(&v).cloned().unwrap_or(Term::Var(v));
        a.map_vars(f) == b.map_vars(f)
    })
}

pub const ENUM_CAP: u64 = 200_000;

/// For every assignment of the term variables 0..k over `u`: is there an assignment of the
/// remaining (hidden) variables that satisfies all constraints? None = too big.
pub fn satisfying(a: &Answer, k: usize, u: &Universe) -> Option<Vec<bool>> {
    let vars = all_vars(a);
    let hidden: Vec<VarId> = vars.iter().copied().filter(|v| (*v as usize) >= k).collect();
    let n = u.0.len() as u64;
    let total = n.checked_pow((k + hidden.len()) as u32)?;
    if total > ENUM_CAP {
        return None;
    }
    let outer = n.pow(k as u32) as usize;
    let inner = n.pow(hidden.len() as u32) as usize;
    let mut out = Vec::with_capacity(outer);
    let mut asg: BTreeMap<VarId, Term> = BTreeMap::new();
    for i in 0..outer {
        let mut x = i;
        for v in 0..k {
            asg.insert(v as VarId, u.0[x % n as usize].clone());
            x /= n as usize;
        }
        let mut ok = false;
        for j in 0..inner {
            let mut y = j;
            for h in &hidden {
                asg.insert(*h, u.0[y % n as usize].clone());
                y /= n as usize;
            }
            if !a.cons.iter().any(|c| violated(c, &asg)) {
                ok = true;
                break;
            }
        }
        out.push(ok);
    }
    Some(out)
}

#[derive(Clone, Debug, PartialEq, Eq)]
pub enum Cmp {
    Equal,
    Different,
    TooBig,
}

/// Are two answers equivalent (same ground instances)? Sound in the "Different" direction
/// only when the term parts differ or the enumeration finds a separating assignment.
pub fn equiv(a: &Answer, b: &Answer, u: &Universe) -> Cmp {
    if a.terms != b.terms {
        return Cmp::Different;
    }
    match (normal_cons(a), normal_cons(b)) {
        (Ok(x), Ok(y)) if x == y => return Cmp::Equal,
        (Err(()), Err(())) => return Cmp::Equal,
        _ => {}
    }
    let k = term_var_count(a);
    match (satisfying(a, k, u), satisfying(b, k, u)) {
        (Some(x), Some(y)) => {
            if x == y {
                Cmp::Equal
            } else {
                Cmp::Different
            }
        }
        _ => Cmp::TooBig,
    }
}

#[derive(Clone, Debug)]
pub struct MultisetDiff {
    pub only_left: Vec<Answer>,
    pub only_right: Vec<Answer>,
}

/// Compare two answer lists as multisets of equivalence classes.
pub fn multiset_cmp(xs: &[Answer], ys: &[Answer], u: &Universe) -> Result<Option<MultisetDiff>, ()> {
    // fast path: sorted syntactic equality
    {
        let mut a = xs.to_vec();
        let mut b = ys.to_vec();
        a.sort();
        b.sort();
        if a == b {
            return Ok(None);
        }
    }
    let mut rest: Vec<Option<&Answer>> = ys.iter().map(Some).collect();
    let mut only_left = vec![];
    let mut too_big = false;
    for x in xs {
        let mut found = false;
        for slot in rest.iter_mut() {
            if let Some(y) = slot {
                match equiv(x, y, u) {
                    Cmp::Equal => {
                        *slot = None;
                        found = true;
                        break;
                    }
                    Cmp::Different => {}
                    Cmp::TooBig => too_big = true,
                }
            }
        }
        if !found {
            only_left.push(x.clone());
        }
    }
    let only_right: Vec<Answer> = rest.into_iter().flatten().cloned().collect();
    if only_left.is_empty() && only_right.is_empty() {
        Ok(None)
    } else if too_big {
        Err(())
    } else {
        Ok(Some(MultisetDiff { only_left, only_right }))
    }
}

/// Does the ground tuple `g` belong to the instance set of answer `a`? (match the terms,
/// then look for an assignment of the remaining variables over `u` satisfying the
/// constraints). None = too big.
pub fn instance_of(g: &[Term], a: &Answer, u: &Universe) -> Option<bool> {
    // one-way matching = unification with a ground term
    let mut s = Subst::new();
    for (t, gt) in a.terms.iter().zip(g.iter()) {
        match unify(&s, t, gt) {
            Some(n) => s = n,
            None => return Some(false),
        }
    }
    let inst = Answer {
        terms: vec![],
        cons: a.cons.iter().map(|c| c.iter().map(|(x, y)| (s.apply(x), s.apply(y))).collect()).collect(),
    };
    // remaining variables are existential
    let sat = satisfying(&inst, 0, u)?;
    Some(sat[0])
}
