//! AST -> surface syntax (Rust source using proto_vulcan_query!). Only forms that the macro
//! grammar accepts are produced (DESIGN.md §10.3): compounds and `{expr}` arguments only at the
//! top level of an `==` / `!=` side or relation argument, negative integers only as `{-n}`,
//! `cond` instead of `conde` inside `dfs { }`.

use crate::ast::*;
use std::collections::{HashMap, HashSet};
use std::fmt::Write;

#[derive(Clone, Debug, Default)]
pub struct Names {
    /// display names; a variable without an entry is printed as q<i> / v<i>
    pub names: HashMap<VarId, String>,
    /// variables printed as `_` (each occurs exactly once and is declared nowhere)
    pub wild: HashSet<VarId>,
    /// print every disjunction as `cond` (legal in both search modes) instead of `conde`
    pub cond_everywhere: bool,
    /// literal spellings: integer ids printed with an `isize` suffix
    pub isize_suffix: bool,
    /// wrap list arguments of `==` in `{lterm!(..)}` when their hash is odd
    pub lterm_args: bool,
    /// vary the spelling of scalar literals from occurrence to occurrence (`16`, `0x10`, `1_6`,
    /// `16isize`; `'a'`, `'\x61'`; `"s"`, `"\u{73}"`): the value is what counts
    pub spellings: bool,
}

impl Names {
    pub fn name(&self, v: VarId, nq: usize) -> String {
        if self.wild.contains(&v) {
            return "_".to_string();
        }
        match self.names.get(&v) {
            Some(n) => n.clone(),
            None => var_name(v, nq),
        }
    }
}

pub struct Emitter<'a> {
    pub names: &'a Names,
    pub nq: usize,
    pub dfs_depth: usize,
    /// collections of `for` loops, hoisted before the query: (name, elements source)
    pub colls: Vec<(String, String)>,
    /// number of scalar literals printed so far (drives the spelling variation)
    pub nlits: std::cell::Cell<u32>,
}

fn lit(t: &Term, e: &Emitter) -> Option<String> {
    if e.names.spellings {
        let k = e.nlits.get();
        e.nlits.set(k + 1);
        match t {
            Term::Int(i) if *i >= 0 => {
                return Some(match k % 5 {
                    0 => format!("{}", i),
                    1 => format!("{:#x}", i),
                    2 => format!("{}isize", i),
                    3 => {
                        // digit separator
                        let d = format!("{}", i);
                        if d.len() >= 2 { format!("{}_{}", &d[..1], &d[1..]) } else { format!("{}_", d) }
                    }
                    _ => format!("{:#b}", i),
                });
            }
            Term::Char(c) if c.is_ascii() && k % 2 == 1 => return Some(format!("'\\x{:02x}'", *c as u32)),
            Term::Str(st) if !st.is_empty() && st.is_ascii() && k % 2 == 1 => {
                return Some(format!("\"{}\"", st.chars().map(|c| format!("\\u{{{:x}}}", c as u32)).collect::<String>()));
            }
            _ => {}
        }
    }
    Some(match t {
        Term::Int(i) if *i >= 0 => {
            if e.names.isize_suffix && *i % 3 == 0 {
                format!("{}isize", i)
            } else {
                format!("{}", i)
            }
        }
        Term::Bool(b) => format!("{}", b),
        Term::Char(c) => format!("{:?}", c),
        Term::Str(s) => format!("{:?}", s),
        _ => return None,
    })
}

impl<'a> Emitter<'a> {
    pub fn new(names: &'a Names, nq: usize) -> Emitter<'a> {
        Emitter { names, nq, dfs_depth: 0, colls: vec![], nlits: std::cell::Cell::new(0) }
    }

    /// a term inside a list / pattern position: TreeTerm grammar only
    pub fn tree_term(&self, t: &Term) -> String {
        match t {
            Term::Var(v) => self.names.name(*v, self.nq),
            Term::Nil => "[]".to_string(),
            Term::Cons(..) => {
                let (items, tail) = t.uncons_all();
                let mut s = String::from("[");
                for (i, it) in items.iter().enumerate() {
                    if i > 0 {
                        s.push_str(", ");
                    }
                    s.push_str(&self.tree_term(it));
                }
                if *tail != Term::Nil {
                    s.push_str(" | ");
                    s.push_str(&self.tree_term(tail));
                }
                s.push(']');
                s
            }
            Term::Int(i) if *i < 0 => panic!("emitter: negative integer inside a tree-term"),
            Term::Cmp(..) => panic!("emitter: compound inside a tree-term"),
            t => lit(t, self).unwrap(),
        }
    }

    /// compound constructor argument / pattern argument: tree-term or nested compound
    fn pattern(&self, t: &Term) -> String {
        match t {
            Term::Cmp(k, a) => self.compound(*k, a),
            t => self.tree_term(t),
        }
    }

    fn compound(&self, k: Kind, a: &[Term]) -> String {
        let args: Vec<String> = a.iter().map(|x| self.pattern(x)).collect();
        match k {
            Kind::Tuple => format!("({})", args.join(", ")),
            Kind::Rec => format!("Rec {{ a: {}, b: {} }}", args[0], args[1]),
            Kind::Wrap => format!("Wrap({}, {})", args[0], if a[1] == Term::Nil { "None".to_string() } else { format!("Some({})", args[1]) }),
            k => format!("{}({})", k.name(), args.join(", ")),
        }
    }

    /// an argument of `==`, `!=` or a relation call
    pub fn arg(&self, t: &Term) -> String {
        match t {
            Term::Int(i) if *i < 0 => format!("{{{}}}", i),
            Term::Cmp(k, a) => self.compound(*k, a),
            Term::Cons(..) if self.names.lterm_args && !contains_wild(t, self.names) && t.size() % 2 == 1 => format!("{{lterm!({})}}", self.tree_term(t)),
            t => self.tree_term(t),
        }
    }

    /// a match pattern (Rec patterns are legal here)
    pub fn match_pattern(&self, t: &Term) -> String {
        self.pattern(t)
    }

    fn goals(&mut self, gs: &[Goal]) -> String {
        gs.iter().map(|g| self.goal(g)).collect::<Vec<_>>().join(", ")
    }

    fn clauses(&mut self, name: &str, cls: &[Vec<Goal>]) -> String {
        let mut s = format!("{} {{ ", name);
        for (i, c) in cls.iter().enumerate() {
            if i > 0 {
                s.push_str(", ");
            }
            if c.len() == 1 {
                s.push_str(&self.goal(&c[0]));
            } else {
                s.push('[');
                s.push_str(&self.goals(c));
                s.push(']');
            }
        }
        s.push_str(" }");
        s
    }

    fn var_list(&self, vs: &[VarId]) -> String {
        vs.iter().map(|v| self.names.name(*v, self.nq)).collect::<Vec<_>>().join(", ")
    }

    pub fn goal(&mut self, g: &Goal) -> String {
        match g {
            Goal::Succeed => "true".into(),
            Goal::Fail => "false".into(),
            Goal::Eq(a, b) => format!("{} == {}", self.arg(a), self.arg(b)),
            Goal::Diseq(a, b) => format!("{} != {}", self.arg(a), self.arg(b)),
            Goal::Conj(gs) => format!("[{}]", self.goals(gs)),
            Goal::Conde(c) => {
                let name = if self.dfs_depth > 0 || self.names.cond_everywhere { "cond" } else { "conde" };
                self.clauses(name, c)
            }
            Goal::Conda(c) => self.clauses("conda", c),
            Goal::Condu(c) => self.clauses("condu", c),
            Goal::Fresh(vs, gs) => format!("|{}| {{ {} }}", self.var_list(vs), self.goals(gs)),
            Goal::Closure(gs) => format!("closure {{ {} }}", self.goals(gs)),
            Goal::Dfs(gs) => {
                self.dfs_depth += 1;
                let s = format!("dfs {{ {} }}", self.goals(gs));
                self.dfs_depth -= 1;
                s
            }
            Goal::Onceo(gs) => format!("onceo {{ {} }}", self.goals(gs)),
            Goal::Anyo(gs) => format!("loop {{ {} }}", self.goals(gs)),
            Goal::Always => "always()".into(),
            Goal::Never => "never()".into(),
            Goal::Call(r, args) => format!("{}({})", r.name(), args.iter().map(|a| self.arg(a)).collect::<Vec<_>>().join(", ")),
            Goal::Fd(f) => match f {
                FdGoal::InFd(x, d) => format!("infd({}, &{:?})", self.arg(x), d),
                FdGoal::InFdRange(x, a, b) => format!("infdrange({}, &(({})..=({})))", self.arg(x), a, b),
                FdGoal::Lte(a, b) => format!("ltefd({}, {})", self.arg(a), self.arg(b)),
                FdGoal::Lt(a, b) => format!("ltfd({}, {})", self.arg(a), self.arg(b)),
                FdGoal::Plus(a, b, c) => format!("plusfd({}, {}, {})", self.arg(a), self.arg(b), self.arg(c)),
                FdGoal::Minus(a, b, c) => format!("minusfd({}, {}, {})", self.arg(a), self.arg(b), self.arg(c)),
                FdGoal::Times(a, b, c) => format!("timesfd({}, {}, {})", self.arg(a), self.arg(b), self.arg(c)),
                FdGoal::Diseq(a, b) => format!("diseqfd({}, {})", self.arg(a), self.arg(b)),
                FdGoal::Distinct(a) => format!("distinctfd({})", self.arg(a)),
            },
            Goal::Z(ZGoal::Plus(a, b, c)) => format!("plusz({}, {}, {})", self.arg(a), self.arg(b), self.arg(c)),
            Goal::Z(ZGoal::Times(a, b, c)) => format!("timesz({}, {}, {})", self.arg(a), self.arg(b), self.arg(c)),
            Goal::For(x, coll, body) => {
                // the collection is a Rust value defined before the query
                let name = format!("coll{}", self.colls.len());
                let elems: Vec<String> = coll.iter().map(|t| format!("lterm!({})", self.tree_term(t))).collect();
                self.colls.push((name.clone(), elems.join(", ")));
                format!("for {} in &{} {{ {} }}", self.names.name(*x, self.nq), name, self.goals(body))
            }
            Goal::ForIn(x, coll, body) => format!("for {} in &{} {{ {} }}", self.names.name(*x, self.nq), self.tree_term(coll), self.goals(body)),
            Goal::Match(k, t, arms) => {
                let name = match k {
                    MatchKind::Match => "match",
                    MatchKind::Matche => "matche",
                    MatchKind::Matcha => "matcha",
                    MatchKind::Matchu => "matchu",
                };
                let mut s = format!("{} {} {{ ", name, self.tree_term(t));
                // Adjacent arms whose printed bodies are identical are written as alternatives
                // `p1 | p2 => body` of one arm: by the documented expansion (a disjunct per arm
                // and alternative) this is the same program, and it lets a body name resolve to a
                // pattern variable in one alternative and to an outer variable in the other.
                let mut printed: Vec<(Vec<String>, String)> = vec![];
                for a in arms.iter() {
                    let pats: Vec<String> = a.patterns.iter().map(|p| self.match_pattern(p)).collect();
                    let body = if a.body.is_empty() {
                        ",".to_string()
                    } else if a.body.len() == 1 {
                        format!("{},", self.goal(&a.body[0]))
                    } else {
                        format!("{{ {} }},", self.goals(&a.body))
                    };
                    match printed.last_mut() {
                        Some((lp, lb)) if *lb == body && body != "," => lp.extend(pats),
                        _ => printed.push((pats, body)),
                    }
                }
                for (i, (pats, body)) in printed.iter().enumerate() {
                    if i > 0 {
                        s.push(' ');
                    }
                    let _ = write!(s, "{} => {}", pats.join(" | "), body);
                }
                s.push_str(" }");
                s
            }
            Goal::Project(..) | Goal::NonRel(..) | Goal::Probe(..) | Goal::UserUpd(..) | Goal::Ticket(..) | Goal::ReadUser(..) => {
                panic!("emitter: goal kind has no surface form in the generated programs")
            }
        }
    }

    pub fn query(&mut self, p: &Program) -> String {
        let qv: Vec<VarId> = (0..p.nq as VarId).collect();
        let body = self.goals(&p.body);
        format!("proto_vulcan_query!(|{}| {{ {} }})", self.var_list(&qv), body)
    }
}

fn contains_wild(t: &Term, n: &Names) -> bool {
    let mut v = vec![];
    t.vars(&mut v);
    v.iter().any(|x| n.wild.contains(x))
}

/// The complete source of one generated case module.
pub fn case_module(p: &Program, names: &Names, limit: usize, budget: u64) -> String {
    let mut e = Emitter::new(names, p.nq);
    let q = e.query(p);
    let mut s = String::new();
    s.push_str("#![allow(unused_imports, unused_variables, unused_mut, non_snake_case)]\n");
    s.push_str("use proto_vulcan::prelude::*;\nuse proto_vulcan::relation::*;\nuse proto_vulcan::operator::*;\n");
    s.push_str("use pvh::build::cmp::*;\n#[allow(unused_imports)]\nuse pvh::build::cmp2;\nuse pvh::build::{nat, lenle, downfrom, diverge, memberrev, zeros, nrev, deepnever};\n\n");
    s.push_str("pub fn run() -> pvh::pipeline::CaseOut {\n");
    let _ = writeln!(s, "    pvh::pipeline::run_case({}, {}, || {{", limit, budget);
    for (name, elems) in &e.colls {
        let _ = writeln!(s, "        let {}: Vec<LTerm> = vec![{}];", name, elems);
    }
    let _ = writeln!(s, "        let query = {};", q);
    let fields: Vec<String> = (0..p.nq).map(|i| format!("proto_vulcan::lresult::LResult(r.{0}.0.clone(), r.{0}.1.clone())", names.name(i as VarId, p.nq))).collect();
    let _ = writeln!(s, "        Box::new(query.run().map(|r| (vec![{}], format!(\"{{}}\", r))))", fields.join(", "));
    s.push_str("    })\n}\n");
    s
}

/// `lterm!(t)` round trip module: returns the converted term
pub fn lterm_expr(t: &Term, names: &Names) -> String {
    let e = Emitter::new(names, 0);
    format!("lterm!({})", e.tree_term(t))
}
