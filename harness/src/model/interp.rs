//! Reference interpreter: depth-first, left-to-right, ordered answers, disequalities kept
//! un-normalised as the original pairs and re-examined after every binding. No constraint
//! store, no subsumption, no streams. A second mode (`set_mode`) gives set semantics for
//! programs with infinite streams (Anyo(g) ≡ g, Always ≡ Succeed, Never ≡ Fail).

use crate::ast::*;
use crate::model::unify::{unify, Subst};

#[derive(Clone, Debug)]
pub struct St {
    pub s: Subst,
    pub diseqs: Vec<(Term, Term)>,
    pub trace: Vec<u32>,
    pub counter: i64,
    /// number of successful `==` goals on this path (library-internal ones included)
    pub eqs: u32,
}

#[derive(Clone, Debug, PartialEq, Eq)]
pub enum InterpErr {
    Fuel,
    Infinite,
    Unsupported(&'static str),
}

#[derive(Clone, Debug)]
pub struct RAnswer {
    pub terms: Vec<Term>,
    /// residual constraints: each is a list of pairs meaning "not all pairs equal"
    pub cons: Vec<Vec<(Term, Term)>>,
    pub trace: Vec<u32>,
    pub counter: i64,
    pub eqs: u32,
}

pub struct Interp {
    pub fuel: u64,
    pub next_var: VarId,
    pub set_mode: bool,
    /// ticket goals are ignored by the reference (the answer order is the ticket order)
    pub nq: usize,
}

fn rename_term(t: &Term, map: &[(VarId, VarId)]) -> Term {
    t.map_vars(&mut |v| {
        for (a, b) in map {
            if *a == v {
                return Term::Var(*b);
            }
        }
        Term::Var(v)
    })
}

fn subst_term(t: &Term, map: &[(VarId, Term)]) -> Term {
    t.map_vars(&mut |v| {
        for (a, b) in map {
            if *a == v {
                return b.clone();
            }
        }
        Term::Var(v)
    })
}

/// Replace variables by terms throughout a goal (binders of the same id are not generated
/// by the decoders, ids are unique program-wide).
pub fn subst_goal(g: &Goal, map: &[(VarId, Term)]) -> Goal {
    let st = |t: &Term| subst_term(t, map);
    let sg = |gs: &Vec<Goal>| gs.iter().map(|g| subst_goal(g, map)).collect::<Vec<_>>();
    match g {
        Goal::Eq(a, b) => Goal::Eq(st(a), st(b)),
        Goal::Diseq(a, b) => Goal::Diseq(st(a), st(b)),
        Goal::Conj(gs) => Goal::Conj(sg(gs)),
        Goal::Conde(c) => Goal::Conde(c.iter().map(sg).collect()),
        Goal::Conda(c) => Goal::Conda(c.iter().map(sg).collect()),
        Goal::Condu(c) => Goal::Condu(c.iter().map(sg).collect()),
        Goal::Fresh(v, gs) => Goal::Fresh(v.clone(), sg(gs)),
        Goal::Closure(gs) => Goal::Closure(sg(gs)),
        Goal::Dfs(gs) => Goal::Dfs(sg(gs)),
        Goal::Onceo(gs) => Goal::Onceo(sg(gs)),
        Goal::Anyo(gs) => Goal::Anyo(sg(gs)),
        Goal::Call(r, args) => Goal::Call(*r, args.iter().map(st).collect()),
        Goal::Fd(f) => Goal::Fd(match f {
            FdGoal::InFd(x, d) => FdGoal::InFd(st(x), d.clone()),
            FdGoal::InFdRange(x, a, b) => FdGoal::InFdRange(st(x), *a, *b),
            FdGoal::Lte(a, b) => FdGoal::Lte(st(a), st(b)),
            FdGoal::Lt(a, b) => FdGoal::Lt(st(a), st(b)),
            FdGoal::Plus(a, b, c) => FdGoal::Plus(st(a), st(b), st(c)),
            FdGoal::Minus(a, b, c) => FdGoal::Minus(st(a), st(b), st(c)),
            FdGoal::Times(a, b, c) => FdGoal::Times(st(a), st(b), st(c)),
            FdGoal::Diseq(a, b) => FdGoal::Diseq(st(a), st(b)),
            FdGoal::Distinct(a) => FdGoal::Distinct(st(a)),
        }),
        Goal::Z(ZGoal::Plus(a, b, c)) => Goal::Z(ZGoal::Plus(st(a), st(b), st(c))),
        Goal::Z(ZGoal::Times(a, b, c)) => Goal::Z(ZGoal::Times(st(a), st(b), st(c))),
        Goal::Project(v, gs) => Goal::Project(v.clone(), sg(gs)),
        Goal::NonRel(NonRel::SqEq(a, b)) => Goal::NonRel(NonRel::SqEq(st(a), st(b))),
        Goal::NonRel(NonRel::AddConst(a, k, b)) => Goal::NonRel(NonRel::AddConst(st(a), *k, st(b))),
        Goal::NonRel(NonRel::IsGroundInt(a)) => Goal::NonRel(NonRel::IsGroundInt(st(a))),
        Goal::NonRel(NonRel::IsGroundTerm(a)) => Goal::NonRel(NonRel::IsGroundTerm(st(a))),
        Goal::For(x, coll, body) => Goal::For(*x, coll.iter().map(st).collect(), sg(body)),
        Goal::ForIn(x, coll, body) => Goal::ForIn(*x, st(coll), sg(body)),
        Goal::Match(k, t, arms) => Goal::Match(
            *k,
            st(t),
            arms.iter()
                .map(|a| Arm { patterns: a.patterns.iter().map(st).collect(), body: sg(&a.body) })
                .collect(),
        ),
        Goal::Ticket(t) => Goal::Ticket(st(t)),
        Goal::ReadUser(t) => Goal::ReadUser(st(t)),
        g => g.clone(),
    }
}

pub fn rename_goal(g: &Goal, map: &[(VarId, VarId)]) -> Goal {
    let m: Vec<(VarId, Term)> = map.iter().map(|(a, b)| (*a, Term::Var(*b))).collect();
    let g2 = subst_goal(g, &m);
    rename_binders(&g2, map)
}

fn rename_binders(g: &Goal, map: &[(VarId, VarId)]) -> Goal {
    let rv = |v: &VarId| map.iter().find(|(a, _)| a == v).map(|(_, b)| *b).unwrap_or(*v);
    let rg = |gs: &Vec<Goal>| gs.iter().map(|g| rename_binders(g, map)).collect::<Vec<_>>();
    match g {
        Goal::Fresh(v, gs) => Goal::Fresh(v.iter().map(rv).collect(), rg(gs)),
        Goal::Project(v, gs) => Goal::Project(v.iter().map(rv).collect(), rg(gs)),
        Goal::For(x, c, gs) => Goal::For(rv(x), c.clone(), rg(gs)),
        Goal::ForIn(x, c, gs) => Goal::ForIn(rv(x), c.clone(), rg(gs)),
        Goal::Conj(gs) => Goal::Conj(rg(gs)),
        Goal::Conde(c) => Goal::Conde(c.iter().map(rg).collect()),
        Goal::Conda(c) => Goal::Conda(c.iter().map(rg).collect()),
        Goal::Condu(c) => Goal::Condu(c.iter().map(rg).collect()),
        Goal::Closure(gs) => Goal::Closure(rg(gs)),
        Goal::Dfs(gs) => Goal::Dfs(rg(gs)),
        Goal::Onceo(gs) => Goal::Onceo(rg(gs)),
        Goal::Anyo(gs) => Goal::Anyo(rg(gs)),
        Goal::Match(k, t, arms) => Goal::Match(
            *k,
            t.clone(),
            arms.iter().map(|a| Arm { patterns: a.patterns.clone(), body: rg(&a.body) }).collect(),
        ),
        g => g.clone(),
    }
}

/// Pattern variables of a match arm alternative: every variable of the pattern that is not
/// bound outside (the decoders give pattern variables ids ≥ the arm's `first_pattern_var`).
pub fn pattern_vars(p: &Term) -> Vec<VarId> {
    let mut v = vec![];
    p.vars(&mut v);
    v
}

impl Interp {
    pub fn new(p: &Program, fuel: u64) -> Interp {
        Interp { fuel, next_var: p.max_var() + 1000, set_mode: false, nq: p.nq }
    }

    fn fresh(&mut self) -> VarId {
        let v = self.next_var;
        self.next_var += 1;
        v
    }

    fn tick(&mut self) -> Result<(), InterpErr> {
        if self.fuel == 0 {
            return Err(InterpErr::Fuel);
        }
        self.fuel -= 1;
        Ok(())
    }

    fn check_diseqs(st: &St) -> bool {
        for (a, b) in &st.diseqs {
            if st.s.apply(a) == st.s.apply(b) {
                return false;
            }
        }
        true
    }

    pub fn conj(&mut self, gs: &[Goal], st: St) -> Result<Vec<St>, InterpErr> {
        let mut cur = vec![st];
        for g in gs {
            let mut next = vec![];
            for s in cur {
                next.extend(self.eval(g, s)?);
            }
            cur = next;
            if cur.is_empty() {
                break;
            }
        }
        Ok(cur)
    }

    fn committed(&mut self, clauses: &[Vec<Goal>], st: St, once: bool) -> Result<Vec<St>, InterpErr> {
        for c in clauses {
            if c.is_empty() {
                continue; // the implementation skips empty clauses
            }
            let mut hs = self.eval(&c[0], st.clone())?;
            if !hs.is_empty() {
                if once {
                    hs.truncate(1);
                }
                let mut out = vec![];
                for h in hs {
                    out.extend(self.conj(&c[1..], h)?);
                }
                return Ok(out);
            }
        }
        Ok(vec![])
    }

    /// The documented expansion of a match: disjunction over (arm, alternative) of
    /// fresh(pattern names){ t == p, body }.
    pub fn match_clauses(&mut self, t: &Term, arms: &[Arm], bound: &dyn Fn(VarId) -> bool) -> Vec<Vec<Goal>> {
        let mut clauses = vec![];
        for a in arms {
            for p in &a.patterns {
                let pv: Vec<VarId> = pattern_vars(p).into_iter().filter(|v| !bound(*v)).collect();
                let body: Vec<Goal> = std::iter::once(Goal::Eq(t.clone(), p.clone())).chain(a.body.iter().cloned()).collect();
                clauses.push(vec![Goal::Fresh(pv, body)]);
            }
        }
        clauses
    }

    pub fn eval(&mut self, g: &Goal, mut st: St) -> Result<Vec<St>, InterpErr> {
        self.tick()?;
        match g {
            Goal::Succeed => Ok(vec![st]),
            Goal::Fail => Ok(vec![]),
            Goal::Eq(a, b) => match unify(&st.s, a, b) {
                Some(s) => {
                    st.s = s;
                    st.eqs += 1;
                    if Self::check_diseqs(&st) {
                        Ok(vec![st])
                    } else {
                        Ok(vec![])
                    }
                }
                None => Ok(vec![]),
            },
            Goal::Diseq(a, b) => {
                if st.s.apply(a) == st.s.apply(b) {
                    Ok(vec![])
                } else {
                    st.diseqs.push((a.clone(), b.clone()));
                    Ok(vec![st])
                }
            }
            Goal::Conj(gs) | Goal::Dfs(gs) | Goal::Closure(gs) => self.conj(gs, st),
            Goal::Conde(clauses) => {
                let mut out = vec![];
                for c in clauses {
                    out.extend(self.conj(c, st.clone())?);
                }
                Ok(out)
            }
            Goal::Fresh(vs, body) => {
                // rename apart: the same Fresh may be evaluated several times (recursion, loops)
                let map: Vec<(VarId, VarId)> = vs.iter().map(|v| (*v, self.fresh())).collect();
                let body: Vec<Goal> = body.iter().map(|g| rename_goal(g, &map)).collect();
                self.conj(&body, st)
            }
            Goal::Conda(c) => self.committed(c, st, false),
            Goal::Condu(c) => self.committed(c, st, true),
            Goal::Onceo(gs) => {
                let mut r = self.conj(gs, st)?;
                r.truncate(1);
                Ok(r)
            }
            Goal::Anyo(gs) => {
                if self.set_mode {
                    self.conj(gs, st)
                } else {
                    Err(InterpErr::Infinite)
                }
            }
            Goal::Always => {
                if self.set_mode {
                    Ok(vec![st])
                } else {
                    Err(InterpErr::Infinite)
                }
            }
            Goal::Never => {
                if self.set_mode {
                    Ok(vec![])
                } else {
                    Err(InterpErr::Infinite)
                }
            }
            Goal::Call(r, args) => {
                let def = self.rel_def(*r, args)?;
                self.eval(&def, st)
            }
            Goal::Fd(_) => Err(InterpErr::Unsupported("fd")),
            Goal::Z(_) => Err(InterpErr::Unsupported("clpz")),
            Goal::Project(vs, body) => {
                let map: Vec<(VarId, Term)> = vs.iter().map(|v| (*v, st.s.apply(&Term::Var(*v)))).collect();
                let body: Vec<Goal> = body.iter().map(|g| subst_goal(g, &map)).collect();
                self.conj(&body, st)
            }
            // Non-relational goals look at the term they hold, as it is, without consulting the
            // substitution: inside `project` the projected variables have been replaced by
            // their walked values, anything else is still a variable.
            Goal::NonRel(n) => match n {
                NonRel::SqEq(x, q) => match x {
                    Term::Int(n) => self.eval(&Goal::Eq(q.clone(), Term::Int(n * n)), st),
                    _ => Ok(vec![]),
                },
                NonRel::AddConst(x, k, q) => match x {
                    Term::Int(n) => self.eval(&Goal::Eq(q.clone(), Term::Int(n + k)), st),
                    _ => Ok(vec![]),
                },
                NonRel::IsGroundInt(x) => match x {
                    Term::Int(_) => Ok(vec![st]),
                    _ => Ok(vec![]),
                },
                NonRel::IsGroundTerm(x) => {
                    if x.is_ground() {
                        Ok(vec![st])
                    } else {
                        Ok(vec![])
                    }
                }
            },
            Goal::For(x, coll, body) => {
                let mut gs = vec![];
                for e in coll {
                    for b in body {
                        gs.push(subst_goal(b, &[(*x, e.clone())]));
                    }
                }
                // each instantiation of the body must get its own fresh variables: wrap in
                // Fresh-renaming by evaluating through conj (Fresh nodes rename on evaluation)
                self.conj(&gs, st)
            }
            Goal::ForIn(x, coll, body) => {
                // the collection as it is in this state; only proper lists are generated
                let c = st.s.apply(coll);
                let items: Vec<Term> = match c.as_proper_list() {
                    Some(v) => v.into_iter().cloned().collect(),
                    None => return Err(InterpErr::Unsupported("for over a term that is not a proper list")),
                };
                let mut gs = vec![];
                for e in &items {
                    for b in body {
                        gs.push(subst_goal(b, &[(*x, e.clone())]));
                    }
                }
                self.conj(&gs, st)
            }
            Goal::Match(kind, t, arms) => {
                let nq = self.nq;
                let _ = nq;
                let clauses = self.match_clauses(t, arms, &|_v| false);
                match kind {
                    MatchKind::Match | MatchKind::Matche => self.eval(&Goal::Conde(clauses), st),
                    MatchKind::Matcha => self.committed(&clauses_split(clauses), st, false),
                    MatchKind::Matchu => self.committed(&clauses_split(clauses), st, true),
                }
            }
            Goal::Probe(i) => {
                st.trace.push(*i);
                Ok(vec![st])
            }
            Goal::UserUpd(k) => {
                st.counter += *k;
                Ok(vec![st])
            }
            Goal::Ticket(_) => Ok(vec![st]),
            Goal::ReadUser(t) => {
                let c = st.counter;
                self.eval(&Goal::Eq(t.clone(), Term::Int(c)), st)
            }
        }
    }

    /// One unfolding of a relation, mirroring the library's (and the harness's) definitions
    /// clause by clause.
    pub fn rel_def(&mut self, r: Rel, a: &[Term]) -> Result<Goal, InterpErr> {
        let v = |s: &mut Interp| Term::Var(s.fresh());
        let ids = |ts: &[&Term]| -> Vec<VarId> {
            ts.iter().filter_map(|t| if let Term::Var(v) = t { Some(*v) } else { None }).collect()
        };
        Ok(match r {
            Rel::Member => {
                let (x, l) = (&a[0], &a[1]);
                let (h, w1, w2, rest) = (v(self), v(self), v(self), v(self));
                Goal::Conde(vec![
                    vec![Goal::Fresh(ids(&[&h, &w1]), vec![Goal::Eq(l.clone(), Term::cons(h.clone(), w1.clone())), Goal::Eq(h.clone(), x.clone())])],
                    vec![Goal::Fresh(ids(&[&w2, &rest]), vec![Goal::Eq(l.clone(), Term::cons(w2.clone(), rest.clone())), Goal::Call(Rel::Member, vec![x.clone(), rest.clone()])])],
                ])
            }
            Rel::Member1 => {
                let (x, l) = (&a[0], &a[1]);
                let (h, w1, h2, rest) = (v(self), v(self), v(self), v(self));
                Goal::Conde(vec![
                    vec![Goal::Fresh(ids(&[&h, &w1]), vec![Goal::Eq(l.clone(), Term::cons(h.clone(), w1.clone())), Goal::Eq(h.clone(), x.clone())])],
                    vec![Goal::Fresh(
                        ids(&[&h2, &rest]),
                        vec![
                            Goal::Eq(l.clone(), Term::cons(h2.clone(), rest.clone())),
                            Goal::Diseq(h2.clone(), x.clone()),
                            Goal::Call(Rel::Member1, vec![x.clone(), rest.clone()]),
                        ],
                    )],
                ])
            }
            Rel::Append => {
                let t3 = Term::list(vec![a[0].clone(), a[1].clone(), a[2].clone()]);
                let x = v(self);
                let (y, l1, l2, l3) = (v(self), v(self), v(self), v(self));
                Goal::Conde(vec![
                    vec![Goal::Fresh(ids(&[&x]), vec![Goal::Eq(t3.clone(), Term::list(vec![Term::Nil, x.clone(), x.clone()]))])],
                    vec![Goal::Fresh(
                        ids(&[&y, &l1, &l2, &l3]),
                        vec![
                            Goal::Eq(t3.clone(), Term::list(vec![Term::cons(y.clone(), l1.clone()), l2.clone(), Term::cons(y.clone(), l3.clone())])),
                            Goal::Call(Rel::Append, vec![l1.clone(), l2.clone(), l3.clone()]),
                        ],
                    )],
                ])
            }
            Rel::Rember => {
                let (x, ls, out) = (&a[0], &a[1], &a[2]);
                let t2 = Term::list(vec![ls.clone(), out.clone()]);
                let (aa, d) = (v(self), v(self));
                let (y, ys, zs) = (v(self), v(self), v(self));
                Goal::Conde(vec![
                    vec![Goal::Eq(t2.clone(), Term::list(vec![Term::Nil, Term::Nil]))],
                    vec![Goal::Fresh(
                        ids(&[&aa, &d]),
                        vec![Goal::Eq(t2.clone(), Term::list(vec![Term::cons(aa.clone(), d.clone()), d.clone()])), Goal::Eq(aa.clone(), x.clone())],
                    )],
                    vec![Goal::Fresh(
                        ids(&[&y, &ys, &zs]),
                        vec![
                            Goal::Eq(t2.clone(), Term::list(vec![Term::cons(y.clone(), ys.clone()), Term::cons(y.clone(), zs.clone())])),
                            Goal::Diseq(y.clone(), x.clone()),
                            Goal::Call(Rel::Rember, vec![x.clone(), ys.clone(), zs.clone()]),
                        ],
                    )],
                ])
            }
            Rel::Permute => {
                let (xl, yl) = (&a[0], &a[1]);
                let t2 = Term::list(vec![xl.clone(), yl.clone()]);
                let (x, xs, w, ys) = (v(self), v(self), v(self), v(self));
                Goal::Conde(vec![
                    vec![Goal::Eq(t2.clone(), Term::list(vec![Term::Nil, Term::Nil]))],
                    vec![Goal::Fresh(
                        ids(&[&x, &xs, &w]),
                        vec![
                            Goal::Eq(t2.clone(), Term::list(vec![Term::cons(x.clone(), xs.clone()), w.clone()])),
                            Goal::Fresh(
                                ids(&[&ys]),
                                vec![Goal::Call(Rel::Permute, vec![xs.clone(), ys.clone()]), Goal::Call(Rel::Rember, vec![x.clone(), yl.clone(), ys.clone()])],
                            ),
                        ],
                    )],
                ])
            }
            Rel::Distinct => {
                let l = &a[0];
                let w = v(self);
                let (f, s2, rest) = (v(self), v(self), v(self));
                Goal::Conde(vec![
                    vec![Goal::Eq(l.clone(), Term::Nil)],
                    vec![Goal::Fresh(ids(&[&w]), vec![Goal::Eq(l.clone(), Term::list(vec![w.clone()]))])],
                    vec![Goal::Fresh(
                        ids(&[&f, &s2, &rest]),
                        vec![
                            Goal::Eq(l.clone(), Term::improper(vec![f.clone(), s2.clone()], rest.clone())),
                            Goal::Diseq(f.clone(), s2.clone()),
                            Goal::Call(Rel::Distinct, vec![Term::cons(f.clone(), rest.clone())]),
                            Goal::Call(Rel::Distinct, vec![Term::cons(s2.clone(), rest.clone())]),
                        ],
                    )],
                ])
            }
            Rel::Cons => Goal::Eq(Term::cons(a[0].clone(), a[1].clone()), a[2].clone()),
            Rel::First => {
                let r = v(self);
                Goal::Fresh(ids(&[&r]), vec![Goal::Call(Rel::Cons, vec![a[1].clone(), r.clone(), a[0].clone()])])
            }
            Rel::Rest => {
                let f = v(self);
                Goal::Fresh(ids(&[&f]), vec![Goal::Call(Rel::Cons, vec![f.clone(), a[1].clone(), a[0].clone()])])
            }
            Rel::Empty => Goal::Eq(Term::Nil, a[0].clone()),
            Rel::Nat => {
                // nat(x): conde { x == [], |y| { x == [1 | y], nat(y) } }
                let y = v(self);
                Goal::Conde(vec![
                    vec![Goal::Eq(a[0].clone(), Term::Nil)],
                    vec![Goal::Fresh(ids(&[&y]), vec![Goal::Eq(a[0].clone(), Term::cons(Term::Int(1), y.clone())), Goal::Call(Rel::Nat, vec![y.clone()])])],
                ])
            }
            Rel::LenLe => {
                // lenle(l, n): conde { l == [], |h, t, m| { n == [1 | m], l == [h | t], lenle(t, m) } }
                let (h, t, m) = (v(self), v(self), v(self));
                Goal::Conde(vec![
                    vec![Goal::Eq(a[0].clone(), Term::Nil)],
                    vec![Goal::Fresh(
                        ids(&[&h, &t, &m]),
                        vec![
                            Goal::Eq(a[1].clone(), Term::cons(Term::Int(1), m.clone())),
                            Goal::Eq(a[0].clone(), Term::cons(h.clone(), t.clone())),
                            Goal::Call(Rel::LenLe, vec![t.clone(), m.clone()]),
                        ],
                    )],
                ])
            }
            Rel::Downfrom => {
                // downfrom(n, l): conde { [n == [], l == []], |m, t| { n == [1 | m], l == [n | t], downfrom(m, t) } }
                let (m, t) = (v(self), v(self));
                Goal::Conde(vec![
                    vec![Goal::Eq(a[0].clone(), Term::Nil), Goal::Eq(a[1].clone(), Term::Nil)],
                    vec![Goal::Fresh(
                        ids(&[&m, &t]),
                        vec![
                            Goal::Eq(a[0].clone(), Term::cons(Term::Int(1), m.clone())),
                            Goal::Eq(a[1].clone(), Term::cons(a[0].clone(), t.clone())),
                            Goal::Call(Rel::Downfrom, vec![m.clone(), t.clone()]),
                        ],
                    )],
                ])
            }
            Rel::MemberRev => {
                // memberrev(x, l): conde { |h, t| { l == [h | t], memberrev(x, t) }, |t| { l == [x | t] } }
                let (h, t, t2) = (v(self), v(self), v(self));
                Goal::Conde(vec![
                    vec![Goal::Fresh(ids(&[&h, &t]), vec![Goal::Eq(a[1].clone(), Term::cons(h.clone(), t.clone())), Goal::Call(Rel::MemberRev, vec![a[0].clone(), t.clone()])])],
                    vec![Goal::Fresh(ids(&[&t2]), vec![Goal::Eq(a[1].clone(), Term::cons(a[0].clone(), t2.clone()))])],
                ])
            }
            Rel::Zeros => {
                // zeros(l): conde { l == [], |h, t| { l == [h | t], zeros(t), h == 0 } }
                let (h, t) = (v(self), v(self));
                Goal::Conde(vec![
                    vec![Goal::Eq(a[0].clone(), Term::Nil)],
                    vec![Goal::Fresh(
                        ids(&[&h, &t]),
                        vec![Goal::Eq(a[0].clone(), Term::cons(h.clone(), t.clone())), Goal::Call(Rel::Zeros, vec![t.clone()]), Goal::Eq(h.clone(), Term::Int(0))],
                    )],
                ])
            }
            Rel::Nrev => {
                // nrev(l, r): conde { [l == [], r == []], |h, t, rt| { l == [h | t], nrev(t, rt), append(rt, [h], r) } }
                let (h, t, rt) = (v(self), v(self), v(self));
                Goal::Conde(vec![
                    vec![Goal::Eq(a[0].clone(), Term::Nil), Goal::Eq(a[1].clone(), Term::Nil)],
                    vec![Goal::Fresh(
                        ids(&[&h, &t, &rt]),
                        vec![
                            Goal::Eq(a[0].clone(), Term::cons(h.clone(), t.clone())),
                            Goal::Call(Rel::Nrev, vec![t.clone(), rt.clone()]),
                            Goal::Call(Rel::Append, vec![rt.clone(), Term::list(vec![h.clone()]), a[1].clone()]),
                        ],
                    )],
                ])
            }
            Rel::DeepNever => {
                // never produces an answer
                if self.set_mode {
                    Goal::Fail
                } else {
                    return Err(InterpErr::Infinite);
                }
            }
            Rel::Diverge => {
                if self.set_mode {
                    Goal::Fail
                } else {
                    return Err(InterpErr::Infinite);
                }
            }
        })
    }
}

fn clauses_split(cl: Vec<Vec<Goal>>) -> Vec<Vec<Goal>> {
    // a match clause is `fresh(pv){ t == p, body… }`: for the committed-choice variants the head
    // is the equality. Flatten so that `committed` sees [head, rest…] under the same fresh
    // variables: evaluate Fresh first by inlining (pattern variables are already unique ids).
    cl.into_iter()
        .map(|c| match c.into_iter().next() {
            Some(Goal::Fresh(_, body)) => body,
            Some(g) => vec![g],
            None => vec![],
        })
        .collect()
}

pub fn initial() -> St {
    St { s: Subst::new(), diseqs: vec![], trace: vec![], counter: 0, eqs: 0 }
}

pub fn extract(st: &St, nq: usize) -> RAnswer {
    let terms: Vec<Term> = (0..nq).map(|i| st.s.apply(&Term::Var(i as VarId))).collect();
    let mut cons = vec![];
    for (a, b) in &st.diseqs {
        let (a, b) = (st.s.apply(a), st.s.apply(b));
        // entailed (cannot be made equal) -> drop; otherwise residual
        if unify(&Subst::new(), &a, &b).is_some() {
            cons.push(vec![(a, b)]);
        }
    }
    RAnswer { terms, cons, trace: st.trace.clone(), counter: st.counter, eqs: st.eqs }
}

/// Ordered answers of a terminating program (Prolog order).
pub fn answers(p: &Program, fuel: u64) -> Result<Vec<RAnswer>, InterpErr> {
    let mut it = Interp::new(p, fuel);
    let sts = it.conj(&p.body, initial())?;
    Ok(sts.iter().map(|s| extract(s, p.nq)).collect())
}

/// Set semantics: does the program have a solution in which the query tuple equals `ground`?
pub fn holds(p: &Program, ground: &[Term], fuel: u64) -> Result<bool, InterpErr> {
    let mut it = Interp::new(p, fuel);
    it.set_mode = true;
    let mut body: Vec<Goal> = vec![];
    for (i, g) in ground.iter().enumerate() {
        body.push(Goal::Eq(Term::Var(i as VarId), g.clone()));
    }
    body.extend(p.body.iter().cloned());
    let sts = it.conj(&body, initial())?;
    // a residual disequality over non-query variables is always satisfiable (infinite universe)
    Ok(!sts.is_empty())
}
