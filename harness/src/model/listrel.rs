//! Vec-based definitions of the ten library list relations on ground terms.
//! `None` = an argument is outside the relation's documented domain (not a proper list where
//! a list is required), so the instance is not judged.

use crate::ast::{Rel, Term};

fn is_atom(t: &Term) -> bool {
    matches!(t, Term::Int(_) | Term::Bool(_) | Term::Char(_) | Term::Str(_))
}

fn items(t: &Term) -> Option<Vec<Term>> {
    t.as_proper_list().map(|v| v.into_iter().cloned().collect())
}

pub fn holds(rel: Rel, a: &[Term]) -> Option<bool> {
    Some(match rel {
        Rel::Member | Rel::Member1 => {
            if is_atom(&a[1]) {
                return Some(false); // an atom has no members
            }
            items(&a[1])?.contains(&a[0])
        }
        Rel::Append => {
            // ls is l followed by s (s itself may be any term: the tail)
            if is_atom(&a[0]) {
                return Some(false); // "l followed by s" needs a list l
            }
            let l = items(&a[0])?;
            a[2] == Term::improper(l, a[1].clone())
        }
        Rel::Rember => {
            let ls = items(&a[1])?;
            let mut out = ls.clone();
            if let Some(p) = ls.iter().position(|e| *e == a[0]) {
                out.remove(p);
            }
            a[2] == Term::list(out)
        }
        Rel::Permute => {
            let mut x = items(&a[0])?;
            let mut y = match items(&a[1]) {
                Some(y) => y,
                None => return Some(false),
            };
            x.sort();
            y.sort();
            x == y
        }
        Rel::Distinct => {
            let l = items(&a[0])?;
            let mut s = l.clone();
            s.sort();
            s.dedup();
            s.len() == l.len()
        }
        Rel::Cons => a[2] == Term::cons(a[0].clone(), a[1].clone()),
        Rel::First => matches!(&a[0], Term::Cons(h, _) if **h == a[1]),
        Rel::Rest => matches!(&a[0], Term::Cons(_, t) if **t == a[1]),
        Rel::Empty => a[0] == Term::Nil,
        _ => return None,
    })
}

/// number of answers the documentation promises in fully ground mode
pub fn ground_multiplicity(rel: Rel, a: &[Term]) -> Option<usize> {
    match rel {
        // one answer per matching position
        Rel::Member => Some(items(&a[1])?.iter().filter(|e| **e == a[0]).count()),
        // exactly one answer per distinct matching value
        Rel::Member1 => Some(if items(&a[1])?.contains(&a[0]) { 1 } else { 0 }),
        _ => None,
    }
}
