//! Textbook Robinson unification with occurs check over `Term`.
//! Written independently of the implementation (own term type, own substitution, no shared
//! code). The substitution is triangular (bindings are not re-applied when a new one is
//! added) because the eager, idempotent representation costs O(n^2) memory per state on
//! long recursive derivations, which the reference interpreter keeps alive per level.

use crate::ast::{Term, VarId};
use std::collections::BTreeMap;

#[derive(Clone, Debug, Default, PartialEq, Eq)]
pub struct Subst(pub BTreeMap<VarId, Term>);

impl Subst {
    pub fn new() -> Subst {
        Subst(BTreeMap::new())
    }

    /// Resolve the top of a term: follow variable bindings until an unbound variable or a
    /// non-variable term is reached.
    fn top<'a>(&'a self, mut t: &'a Term) -> &'a Term {
        while let Term::Var(v) = t {
            match self.0.get(v) {
                Some(b) => t = b,
                None => break,
            }
        }
        t
    }

    /// The term with every bound variable replaced, recursively.
    pub fn apply(&self, t: &Term) -> Term {
        let t = self.top(t);
        match t {
            Term::Cons(..) => {
                // iterate along the spine to keep the recursion shallow on long lists
                let mut items = vec![];
                let mut cur = t;
                loop {
                    match cur {
                        Term::Cons(h, tl) => {
                            items.push(self.apply(h));
                            cur = self.top(tl);
                        }
                        _ => break,
                    }
                }
                let tail = match cur {
                    Term::Cmp(..) => self.apply(cur),
                    other => other.clone(),
                };
                Term::improper(items, tail)
            }
            Term::Cmp(k, a) => Term::Cmp(*k, a.iter().map(|x| self.apply(x)).collect()),
            _ => t.clone(),
        }
    }

    fn occurs(&self, v: VarId, t: &Term) -> bool {
        let t = self.top(t);
        match t {
            Term::Var(w) => *w == v,
            Term::Cons(h, tl) => self.occurs(v, h) || self.occurs(v, tl),
            Term::Cmp(_, a) => a.iter().any(|x| self.occurs(v, x)),
            _ => false,
        }
    }
}

pub fn occurs(v: VarId, t: &Term) -> bool {
    Subst::new().occurs(v, t)
}

/// Extends `s` to a most general unifier of `a` and `b`; returns false (leaving `s` in an
/// unspecified state) if none exists.
pub fn unify_in(s: &mut Subst, a: &Term, b: &Term) -> bool {
    let a = s.top(a).clone();
    let b = s.top(b).clone();
    match (&a, &b) {
        (Term::Var(x), Term::Var(y)) if x == y => true,
        (Term::Var(x), t) | (t, Term::Var(x)) => {
            if s.occurs(*x, t) {
                false
            } else {
                s.0.insert(*x, t.clone());
                true
            }
        }
        (Term::Cons(h1, t1), Term::Cons(h2, t2)) => unify_in(s, h1, h2) && unify_in(s, t1, t2),
        (Term::Cmp(k1, a1), Term::Cmp(k2, a2)) => {
            if k1 != k2 || a1.len() != a2.len() {
                return false;
            }
            for (x, y) in a1.iter().zip(a2.iter()) {
                if !unify_in(s, x, y) {
                    return false;
                }
            }
            true
        }
        (x, y) => x == y, // atoms, Nil
    }
}

pub fn unify(s: &Subst, a: &Term, b: &Term) -> Option<Subst> {
    let mut n = s.clone();
    if unify_in(&mut n, a, b) {
        Some(n)
    } else {
        None
    }
}

#[cfg(test)]
mod tests {
    use super::*;
    #[test]
    fn basic() {
        let x = Term::Var(0);
        let y = Term::Var(1);
        let s = unify(&Subst::new(), &Term::list(vec![x.clone(), Term::Int(1)]), &Term::list(vec![Term::Int(2), y.clone()])).unwrap();
        assert_eq!(s.apply(&x), Term::Int(2));
        assert_eq!(s.apply(&y), Term::Int(1));
        assert!(unify(&Subst::new(), &x, &Term::list(vec![x.clone()])).is_none());
        let s = unify(&Subst::new(), &x, &y).unwrap();
        let s = unify(&s, &y, &Term::Int(3)).unwrap();
        assert_eq!(s.apply(&x), Term::Int(3));
        // occurs check through a binding
        let s = unify(&Subst::new(), &y, &Term::list(vec![x.clone()])).unwrap();
        assert!(unify(&s, &x, &Term::list(vec![Term::Int(1), y.clone()])).is_none());
    }
}
