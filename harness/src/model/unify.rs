//! Textbook Robinson unification with occurs check over `Term`.
//! The substitution is kept idempotent by eager application (no triangular walk), so this
//! shares nothing with the implementation's `SMap::walk`.

use crate::ast::{Term, VarId};
use std::collections::BTreeMap;

#[derive(Clone, Debug, Default, PartialEq, Eq)]
pub struct Subst(pub BTreeMap<VarId, Term>);

impl Subst {
    pub fn new() -> Subst {
        Subst(BTreeMap::new())
    }

    pub fn apply(&self, t: &Term) -> Term {
        match t {
            Term::Var(v) => match self.0.get(v) {
                Some(b) => b.clone(), // idempotent: b needs no further application
                None => t.clone(),
            },
            Term::Cons(h, tl) => Term::cons(self.apply(h), self.apply(tl)),
            Term::Cmp(k, a) => Term::Cmp(*k, a.iter().map(|x| self.apply(x)).collect()),
            _ => t.clone(),
        }
    }

    fn bind(&mut self, v: VarId, t: Term) {
        // t is already fully applied and does not contain v
        let single = {
            let mut m = BTreeMap::new();
            m.insert(v, t.clone());
            Subst(m)
        };
        for (_, b) in self.0.iter_mut() {
            *b = single.apply(b);
        }
        self.0.insert(v, t);
    }
}

pub fn occurs(v: VarId, t: &Term) -> bool {
    match t {
        Term::Var(w) => *w == v,
        Term::Cons(h, tl) => occurs(v, h) || occurs(v, tl),
        Term::Cmp(_, a) => a.iter().any(|x| occurs(v, x)),
        _ => false,
    }
}

/// Extends `s` to a most general unifier of `a` and `b`; returns false (leaving `s` in an
/// unspecified state) if none exists.
pub fn unify_in(s: &mut Subst, a: &Term, b: &Term) -> bool {
    let a = s.apply(a);
    let b = s.apply(b);
    match (&a, &b) {
        (Term::Var(x), Term::Var(y)) if x == y => true,
        (Term::Var(x), t) | (t, Term::Var(x)) => {
            if occurs(*x, t) {
                false
            } else {
                s.bind(*x, t.clone());
                true
            }
        }
        (Term::Cons(h1, t1), Term::Cons(h2, t2)) => unify_in(s, h1, h2) && unify_in(s, t1, t2),
        (Term::Cmp(k1, a1), Term::Cmp(k2, a2)) => {
            if k1 != k2 || a1.len() != a2.len() {
                return false;
            }
            for (x, y) in a1.iter().zip(a2.iter()) {
                if !unify_in(s, x, y) {
                    return false;
                }
            }
            true
        }
        (x, y) => x == y, // atoms, Nil
    }
}

pub fn unify(s: &Subst, a: &Term, b: &Term) -> Option<Subst> {
    let mut n = s.clone();
    if unify_in(&mut n, a, b) {
        Some(n)
    } else {
        None
    }
}

#[cfg(test)]
mod tests {
    use super::*;
    #[test]
    fn basic() {
        let x = Term::Var(0);
        let y = Term::Var(1);
        let s = unify(&Subst::new(), &Term::list(vec![x.clone(), Term::Int(1)]), &Term::list(vec![Term::Int(2), y.clone()])).unwrap();
        assert_eq!(s.apply(&x), Term::Int(2));
        assert_eq!(s.apply(&y), Term::Int(1));
        assert!(unify(&Subst::new(), &x, &Term::list(vec![x.clone()])).is_none());
        let s = unify(&Subst::new(), &x, &y).unwrap();
        let s = unify(&s, &y, &Term::Int(3)).unwrap();
        assert_eq!(s.apply(&x), Term::Int(3));
    }
}
