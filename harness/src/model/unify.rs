//! Textbook Robinson unification with occurs check over `Term`.
//! Written independently of the implementation (own term type, own substitution, no shared
//! code). The substitution is triangular (bindings are not re-applied when a new one is
//! added) because the eager, idempotent representation costs O(n^2) memory per state on
//! long recursive derivations, which the reference interpreter keeps alive per level.

use crate::ast::{Term, VarId};
use std::sync::Arc;

/// Persistent map VarId -> Term: a binary trie over the key bits (least significant first) with
/// path copying, so that `clone` is O(1) and `insert`/`get` are O(log n). The depth-first
/// reference interpreter keeps one substitution per pending state; with an ordinary map every
/// unification step copies all bindings, which makes a recursion n levels deep cost O(n^2)
/// allocations. A leaf sits at the shallowest depth at which its key prefix is unique, so the
/// shape depends on the key set only.
#[derive(Clone, Debug)]
enum Node {
    Leaf(VarId, Term),
    Branch(Option<Arc<Node>>, Option<Arc<Node>>),
}

#[derive(Clone, Debug, Default)]
pub struct Subst {
    root: Option<Arc<Node>>,
    len: usize,
}

fn bit(k: VarId, depth: u32) -> bool {
    (k >> depth) & 1 == 1
}

fn insert_node(n: &Option<Arc<Node>>, depth: u32, k: VarId, v: Term) -> Arc<Node> {
    match n {
        None => Arc::new(Node::Leaf(k, v)),
        Some(node) => match &**node {
            Node::Leaf(k2, v2) => {
                if *k2 == k {
                    Arc::new(Node::Leaf(k, v))
                } else {
                    // split: push the old leaf one level down, then insert again
                    let old = Some(Arc::new(Node::Leaf(*k2, v2.clone())));
                    let branch = if bit(*k2, depth) { Node::Branch(None, old) } else { Node::Branch(old, None) };
                    insert_node(&Some(Arc::new(branch)), depth, k, v)
                }
            }
            Node::Branch(l, r) => {
                if bit(k, depth) {
                    Arc::new(Node::Branch(l.clone(), Some(insert_node(r, depth + 1, k, v))))
                } else {
                    Arc::new(Node::Branch(Some(insert_node(l, depth + 1, k, v)), r.clone()))
                }
            }
        },
    }
}

impl PartialEq for Subst {
    fn eq(&self, other: &Subst) -> bool {
        self.len == other.len && self.entries() == other.entries()
    }
}
impl Eq for Subst {}

impl Subst {
    pub fn new() -> Subst {
        Subst { root: None, len: 0 }
    }

    pub fn get(&self, k: VarId) -> Option<&Term> {
        let mut cur = self.root.as_ref()?;
        let mut depth = 0;
        loop {
            match &**cur {
                Node::Leaf(k2, v) => return if *k2 == k { Some(v) } else { None },
                Node::Branch(l, r) => {
                    cur = if bit(k, depth) { r.as_ref()? } else { l.as_ref()? };
                    depth += 1;
                }
            }
        }
    }

    pub fn insert(&mut self, k: VarId, v: Term) {
        if self.get(k).is_none() {
            self.len += 1;
        }
        self.root = Some(insert_node(&self.root, 0, k, v));
    }

    pub fn len(&self) -> usize {
        self.len
    }

    /// all bindings, sorted by key
    pub fn entries(&self) -> Vec<(VarId, Term)> {
        fn walk(n: &Option<Arc<Node>>, out: &mut Vec<(VarId, Term)>) {
            if let Some(node) = n {
                match &**node {
                    Node::Leaf(k, v) => out.push((*k, v.clone())),
                    Node::Branch(l, r) => {
                        walk(l, out);
                        walk(r, out);
                    }
                }
            }
        }
        let mut out = vec![];
        walk(&self.root, &mut out);
        out.sort_by_key(|e| e.0);
        out
    }

    /// bound variables, ascending
    pub fn keys(&self) -> Vec<VarId> {
        self.entries().into_iter().map(|e| e.0).collect()
    }

    /// Resolve the top of a term: follow variable bindings until an unbound variable or a
    /// non-variable term is reached.
    fn top<'a>(&'a self, mut t: &'a Term) -> &'a Term {
        while let Term::Var(v) = t {
            match self.get(*v) {
                Some(b) => t = b,
                None => break,
            }
        }
        t
    }

    /// The term with every bound variable replaced, recursively.
    pub fn apply(&self, t: &Term) -> Term {
        let t = self.top(t);
        match t {
            Term::Cons(..) => {
                // iterate along the spine to keep the recursion shallow on long lists
                let mut items = vec![];
                let mut cur = t;
                loop {
                    match cur {
                        Term::Cons(h, tl) => {
                            items.push(self.apply(h));
                            cur = self.top(tl);
                        }
                        _ => break,
                    }
                }
                let tail = match cur {
                    Term::Cmp(..) => self.apply(cur),
                    other => other.clone(),
                };
                Term::improper(items, tail)
            }
            Term::Cmp(k, a) => Term::Cmp(*k, a.iter().map(|x| self.apply(x)).collect()),
            _ => t.clone(),
        }
    }

    fn occurs(&self, v: VarId, t: &Term) -> bool {
        let t = self.top(t);
        match t {
            Term::Var(w) => *w == v,
            Term::Cons(h, tl) => self.occurs(v, h) || self.occurs(v, tl),
            Term::Cmp(_, a) => a.iter().any(|x| self.occurs(v, x)),
            _ => false,
        }
    }
}

pub fn occurs(v: VarId, t: &Term) -> bool {
    Subst::new().occurs(v, t)
}

/// Extends `s` to a most general unifier of `a` and `b`; returns false (leaving `s` in an
/// unspecified state) if none exists.
pub fn unify_in(s: &mut Subst, a: &Term, b: &Term) -> bool {
    let a = s.top(a).clone();
    let b = s.top(b).clone();
    match (&a, &b) {
        (Term::Var(x), Term::Var(y)) if x == y => true,
        (Term::Var(x), t) | (t, Term::Var(x)) => {
            if s.occurs(*x, t) {
                false
            } else {
                s.insert(*x, t.clone());
                true
            }
        }
        (Term::Cons(h1, t1), Term::Cons(h2, t2)) => unify_in(s, h1, h2) && unify_in(s, t1, t2),
        (Term::Cmp(k1, a1), Term::Cmp(k2, a2)) => {
            if k1 != k2 || a1.len() != a2.len() {
                return false;
            }
            for (x, y) in a1.iter().zip(a2.iter()) {
                if !unify_in(s, x, y) {
                    return false;
                }
            }
            true
        }
        (x, y) => x == y, // atoms, Nil
    }
}

pub fn unify(s: &Subst, a: &Term, b: &Term) -> Option<Subst> {
    let mut n = s.clone();
    if unify_in(&mut n, a, b) {
        Some(n)
    } else {
        None
    }
}

#[cfg(test)]
mod tests {
    use super::*;
    #[test]
    fn basic() {
        let x = Term::Var(0);
        let y = Term::Var(1);
        let s = unify(&Subst::new(), &Term::list(vec![x.clone(), Term::Int(1)]), &Term::list(vec![Term::Int(2), y.clone()])).unwrap();
        assert_eq!(s.apply(&x), Term::Int(2));
        assert_eq!(s.apply(&y), Term::Int(1));
        assert!(unify(&Subst::new(), &x, &Term::list(vec![x.clone()])).is_none());
        let s = unify(&Subst::new(), &x, &y).unwrap();
        let s = unify(&s, &y, &Term::Int(3)).unwrap();
        assert_eq!(s.apply(&x), Term::Int(3));
        // occurs check through a binding
        let s = unify(&Subst::new(), &y, &Term::list(vec![x.clone()])).unwrap();
        assert!(unify(&s, &x, &Term::list(vec![Term::Int(1), y.clone()])).is_none());
    }
}
