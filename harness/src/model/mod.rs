//! Reference models, written independently of the implementation and as naively as possible.
pub mod fdbrute;
pub mod interp;
pub mod listrel;
pub mod unify;
