//! Brute-force reference for CLP(FD): enumerate the product of the posted domains, keep the
//! assignments that satisfy every posted constraint and equality.

use crate::ast::{FdGoal, Goal, Term, VarId};
use std::collections::BTreeSet;

pub struct Brute {
    pub domains: Vec<BTreeSet<i64>>,
    pub solutions: Vec<Vec<i64>>,
    pub product: u64,
}

fn val(t: &Term, asg: &[i64]) -> Option<i64> {
    match t {
        Term::Int(i) => Some(*i),
        Term::Var(v) => asg.get(*v as usize).copied(),
        _ => None,
    }
}

pub fn satisfies(g: &Goal, asg: &[i64]) -> bool {
    let v = |t: &Term| val(t, asg);
    match g {
        Goal::Eq(a, b) => match (v(a), v(b)) {
            (Some(x), Some(y)) => x == y,
            _ => false,
        },
        Goal::Fd(f) => match f {
            FdGoal::InFd(..) | FdGoal::InFdRange(..) => true, // in the domains
            FdGoal::Lte(a, b) => matches!((v(a), v(b)), (Some(x), Some(y)) if x <= y),
            FdGoal::Lt(a, b) => matches!((v(a), v(b)), (Some(x), Some(y)) if x < y),
            FdGoal::Plus(a, b, c) => matches!((v(a), v(b), v(c)), (Some(x), Some(y), Some(z)) if x + y == z),
            FdGoal::Minus(a, b, c) => matches!((v(a), v(b), v(c)), (Some(x), Some(y), Some(z)) if x - y == z),
            FdGoal::Times(a, b, c) => matches!((v(a), v(b), v(c)), (Some(x), Some(y), Some(z)) if x * y == z),
            FdGoal::Diseq(a, b) => matches!((v(a), v(b)), (Some(x), Some(y)) if x != y),
            FdGoal::Distinct(l) => match l.as_proper_list() {
                Some(items) => {
                    let vals: Vec<Option<i64>> = items.iter().map(|t| v(t)).collect();
                    if vals.iter().any(|x| x.is_none()) {
                        return false;
                    }
                    let set: BTreeSet<i64> = vals.iter().map(|x| x.unwrap()).collect();
                    set.len() == vals.len()
                }
                None => false,
            },
        },
        _ => true,
    }
}

/// `goals` over FD variables 0..nvars (posting order irrelevant).
pub fn solve(nvars: usize, goals: &[Goal]) -> Option<Brute> {
    let mut domains: Vec<Option<BTreeSet<i64>>> = vec![None; nvars];
    let mut post = |x: &Term, d: BTreeSet<i64>, domains: &mut Vec<Option<BTreeSet<i64>>>| {
        let targets: Vec<VarId> = match x {
            Term::Var(v) => vec![*v],
            t => t.as_proper_list().map(|items| items.iter().filter_map(|i| if let Term::Var(v) = i { Some(*v) } else { None }).collect()).unwrap_or_default(),
        };
        for v in targets {
            let slot = &mut domains[v as usize];
            *slot = Some(match slot.take() {
                None => d.clone(),
                Some(old) => old.intersection(&d).copied().collect(),
            });
        }
    };
    for g in goals {
        match g {
            Goal::Fd(FdGoal::InFd(x, d)) => post(x, d.iter().copied().collect(), &mut domains),
            Goal::Fd(FdGoal::InFdRange(x, a, b)) => post(x, (*a..=*b).collect(), &mut domains),
            _ => {}
        }
    }
    let domains: Vec<BTreeSet<i64>> = domains.into_iter().collect::<Option<Vec<_>>>()?;
    let mut product: u64 = 1;
    for d in &domains {
        product = product.saturating_mul(d.len() as u64);
    }
    let mut solutions = vec![];
    if product > 0 && product <= 200_000 {
        let lists: Vec<Vec<i64>> = domains.iter().map(|d| d.iter().copied().collect()).collect();
        let mut idx = vec![0usize; nvars];
        'outer: loop {
            let asg: Vec<i64> = idx.iter().zip(lists.iter()).map(|(i, l)| l[*i]).collect();
            if goals.iter().all(|g| satisfies(g, &asg)) {
                solutions.push(asg);
            }
            // next
            let mut k = 0;
            loop {
                if k == nvars {
                    break 'outer;
                }
                idx[k] += 1;
                if idx[k] < lists[k].len() {
                    break;
                }
                idx[k] = 0;
                k += 1;
            }
        }
    } else if product > 200_000 {
        return None;
    }
    Some(Brute { domains, solutions, product })
}
